//! libFuzzer target for property C18: bytes -> text -> parse -> check -> (valid entry point =>
//! all later stages and all three code generators).  The oracle is inside the target: no panic
//! other than the two documented capacity assertions (and the RISC-V backend's documented
//! `print` limitation).
#![no_main]

use libfuzzer_sys::fuzz_target;
use std::cell::RefCell;
use std::panic::{AssertUnwindSafe, catch_unwind};
use std::sync::Once;

thread_local! {
    static LAST: RefCell<String> = const { RefCell::new(String::new()) };
}
static HOOK: Once = Once::new();

fn tolerated(msg: &str) -> bool {
    msg.contains("Out of temporaries") || msg.contains("Out of registers") || msg.contains("not implemented in RISC-V backend")
}

fn guarded<T>(what: &str, f: impl FnOnce() -> T) -> Option<T> {
    match catch_unwind(AssertUnwindSafe(f)) {
        Ok(v) => Some(v),
        Err(_) => {
            let msg = LAST.with(|l| l.borrow().clone());
            if tolerated(&msg) {
                None
            } else {
                eprintln!("PANIC in {what}: {msg}");
                std::process::abort();
            }
        }
    }
}

fn valid_entry(p: &fun::syntax::program::CheckedProgram) -> bool {
    use fun::syntax::context::Chirality;
    use fun::syntax::types::Ty;
    p.defs.iter().any(|d| {
        d.name == "main"
            && d.context.bindings.len() <= 5
            && d.context.bindings.iter().all(|b| b.chi == Chirality::Prd && matches!(b.ty, Ty::I64 { .. }))
            && matches!(d.ret_ty, Ty::I64 { .. })
    })
}

fuzz_target!(|data: &[u8]| {
    // libfuzzer-sys aborts in its panic hook; replace it so that tolerated panics can be caught
    HOOK.call_once(|| {
        std::panic::set_hook(Box::new(|info| {
            let msg = if let Some(s) = info.payload().downcast_ref::<&str>() {
                s.to_string()
            } else if let Some(s) = info.payload().downcast_ref::<String>() {
                s.clone()
            } else {
                "panic".to_string()
            };
            let loc = info.location().map(|l| format!("{}:{}", l.file(), l.line())).unwrap_or_default();
            LAST.with(|l| *l.borrow_mut() = format!("{msg} @ {loc}"));
        }));
    });
    if data.len() > 4096 {
        return;
    }
    let text = String::from_utf8_lossy(data).into_owned();
    // nesting is bounded ("within stack limits")
    let mut depth = 0i32;
    let mut maxd = 0i32;
    for c in text.chars() {
        match c {
            '(' | '{' | '[' => {
                depth += 1;
                maxd = maxd.max(depth)
            }
            ')' | '}' | ']' => depth -= 1,
            _ => {}
        }
    }
    if maxd > 200 || text.matches("exit").count() > 200 {
        return;
    }
    let Some(parsed) = guarded("parse", || fun::parser::parse_module(&text)) else { return };
    let Ok(parsed) = parsed else { return };
    let Some(checked) = guarded("check", move || parsed.check()) else { return };
    let Ok(checked) = checked else { return };
    if !valid_entry(&checked) {
        return;
    }
    let Some(linear) = guarded("middle end", move || {
        let core = fun2core::program::compile_prog(checked);
        let focused = core.focus();
        let mut ax = core2axcut::program::shrink_prog(focused);
        ax.linearize();
        ax
    }) else {
        return;
    };
    let l2 = linear.clone();
    let l3 = linear.clone();
    guarded("x86-64", move || axcut2backend::coder::compile::<axcut2x86_64::Backend, _, _, _>(linear));
    guarded("aarch64", move || axcut2backend::coder::compile::<axcut2aarch64::Backend, _, _, _>(l2));
    guarded("rv64", move || axcut2backend::coder::compile::<axcut2rv64::Backend, _, _, _>(l3));
});

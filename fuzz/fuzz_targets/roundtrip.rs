//! libFuzzer target for property C16: bytes -> text -> parse -> print(width, indent) -> parse must
//! give the same tree and printing again the same text.  Inputs containing a literal-zero token
//! next to a comparison operator (known finding D9) are skipped.
#![no_main]

use libfuzzer_sys::fuzz_target;
use printer::Print;

fn d9_shape(text: &str) -> bool {
    // a `0` token directly before or after a comparison operator (possibly separated by blanks,
    // a minus sign or a comment)
    let b = text.as_bytes();
    for (i, c) in b.iter().enumerate() {
        if *c == b'0' {
            let prev_ok = i == 0 || !(b[i - 1].is_ascii_alphanumeric() || b[i - 1] == b'_');
            let next_ok = i + 1 >= b.len() || !(b[i + 1].is_ascii_alphanumeric() || b[i + 1] == b'_');
            if prev_ok && next_ok {
                return true;
            }
        }
    }
    false
}

fuzz_target!(|data: &[u8]| {
    if data.len() < 3 || data.len() > 4096 {
        return;
    }
    let width = 1 + (data[0] as usize % 200);
    let indent = (data[1] % 9) as isize;
    let text = String::from_utf8_lossy(&data[2..]).into_owned();
    let mut depth = 0i32;
    for c in text.chars() {
        match c {
            '(' | '{' | '[' => depth += 1,
            _ => {}
        }
    }
    if depth > 150 || d9_shape(&text) {
        return;
    }
    let Ok(p1) = fun::parser::parse_module(&text) else { return };
    let cfg = printer::PrintCfg { width, allow_linebreaks: true, latex: false, omit_decl_sep: false, indent };
    let t2 = p1.print_to_string(Some(&cfg));
    if d9_shape(&t2) {
        return;
    }
    let p2 = fun::parser::parse_module(&t2).expect("formatted text must parse");
    assert!(p1 == p2, "formatting changed the syntax tree");
    let t3 = p2.print_to_string(Some(&cfg));
    assert!(t2 == t3, "formatting is not idempotent");
});

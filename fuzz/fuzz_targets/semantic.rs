//! libFuzzer target with the harness's semantic oracles inside: the input bytes are the choice
//! buffer of one of the harness's program generators, SCCV_FUZZ_MODE selects generator + oracle
//! (focus / shrink / stages: directly generated Core programs, properties C03 / C04 / C12;
//! linearize / nonlinear: C05; lin-*: directly generated linear AxCut programs on an emulator with
//! the heap auditor, C06-C10; core-*: generated Core programs through the whole middle end onto an
//! emulator).  A failing oracle aborts, so libFuzzer saves the buffer; the harness replays it.
#![no_main]

use libfuzzer_sys::fuzz_target;
use std::sync::OnceLock;

static MODE: OnceLock<String> = OnceLock::new();

fuzz_target!(|data: &[u8]| {
    let mode = MODE.get_or_init(|| std::env::var("SCCV_FUZZ_MODE").unwrap_or_else(|_| "focus".into()));
    if data.len() > 3000 {
        return;
    }
    // generators and machines are recursive: run on a roomy stack
    let d = data.to_vec();
    let m = mode.clone();
    let r = std::thread::Builder::new().stack_size(64 << 20).spawn(move || sccv::fuzz_entry(&m, &d)).expect("thread").join();
    match r {
        Ok(None) => {}
        Ok(Some(summary)) => {
            eprintln!("SEMANTIC FAILURE ({mode}): {summary}");
            std::process::abort();
        }
        Err(_) => {
            eprintln!("HARNESS PANIC ({mode})");
            std::process::abort();
        }
    }
});

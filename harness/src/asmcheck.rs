//! Validators for the emitted assembly text (property C14): labels defined exactly once, every
//! referenced label defined, no clash with runtime symbols, every immediate / shift / offset within
//! the range of the instruction form it is printed in; plus a minimal ELF64 symbol reader used to
//! check the stride of x86-64 jump tables in the assembled object.

use crate::pipeline::Arch;
use std::collections::{HashMap, HashSet};

const RUNTIME: [&str; 6] = ["print_i64", "println_i64", "main", "write", "calloc", "free"];

fn is_label_line(l: &str) -> Option<&str> {
    let n = l.strip_suffix(':')?;
    if n.is_empty() || n.contains(' ') || n.starts_with(';') || n.starts_with("//") {
        return None;
    }
    Some(n)
}

fn fits(v: i128, bits: u32) -> bool {
    let lo = -(1i128 << (bits - 1));
    let hi = (1i128 << (bits - 1)) - 1;
    v >= lo && v <= hi
}

fn x86_operands(rest: &str) -> Vec<String> {
    let mut out = vec![];
    let mut depth = 0;
    let mut cur = String::new();
    for c in rest.chars() {
        match c {
            '[' => {
                depth += 1;
                cur.push(c)
            }
            ']' => {
                depth -= 1;
                cur.push(c)
            }
            ',' if depth == 0 => {
                out.push(cur.trim().to_string());
                cur.clear();
            }
            _ => cur.push(c),
        }
    }
    if !cur.trim().is_empty() {
        out.push(cur.trim().to_string());
    }
    out
}

pub fn validate(arch: Arch, text: &str) -> Result<(), String> {
    let mut defined: HashMap<String, usize> = HashMap::new();
    let mut referenced: Vec<(String, usize)> = vec![];
    // instructions whose form this validator does not know: no range rule applies, acceptance is
    // left to the assembler (GNU as, llvm-mc); their last operand counts as a label reference
    // if a label of that name is defined
    let mut unknown: Vec<String> = vec![];
    let is_comment = |l: &str| match arch {
        Arch::X86 => l.starts_with(';'),
        _ => l.starts_with("//"),
    };
    for (ln, line) in text.lines().enumerate() {
        let l = line.trim();
        if l.is_empty() || is_comment(l) {
            continue;
        }
        if let Some(name) = is_label_line(l) {
            if !name.chars().all(|c| c.is_ascii_alphanumeric() || c == '_') || name.chars().next().is_some_and(|c| c.is_ascii_digit()) {
                return Err(format!("line {}: label `{name}` is not a valid symbol", ln + 1));
            }
            if defined.insert(name.to_string(), ln + 1).is_some() {
                return Err(format!("line {}: label `{name}` is defined twice", ln + 1));
            }
            if RUNTIME.contains(&name) {
                return Err(format!("line {}: label `{name}` collides with a runtime symbol", ln + 1));
            }
            continue;
        }
        let (mn, rest) = match l.split_once(' ') {
            Some((m, r)) => (m, r.trim()),
            None => (l, ""),
        };
        let lnn = ln + 1;
        let imm = |s: &str| -> Result<i128, String> { s.trim().parse::<i128>().map_err(|_| format!("line {lnn}: `{s}` is not an immediate")) };
        match arch {
            Arch::X86 => {
                if ["section", "extern", "global"].contains(&mn) {
                    continue;
                }
                let (mn2, rest) = match rest.strip_prefix("qword ") {
                    Some(r) => (format!("{mn} qword"), r.trim()),
                    None => (mn.to_string(), rest),
                };
                let ops = x86_operands(rest);
                let is_reg = |s: &str| crate::emu_x86::reg_index(s).is_some();
                let mem_ok = |s: &str| -> Result<bool, String> {
                    if let Some(inner) = s.strip_prefix('[').and_then(|x| x.strip_suffix(']')) {
                        if inner.trim_start().starts_with("rel ") {
                            return Ok(true);
                        }
                        let (r, off) = match inner.split_once('+') {
                            Some((r, o)) => match imm(o) {
                                Ok(v) => (r.trim(), v),
                                // scaled-index and other addressing forms: the assembler decides
                                Err(_) => return Ok(true),
                            },
                            None => (inner.trim(), 0),
                        };
                        if !is_reg(r) {
                            return Ok(true);
                        }
                        if !fits(off, 32) {
                            return Err(format!("line {lnn}: displacement {off} does not fit 32 bits"));
                        }
                        Ok(true)
                    } else {
                        Ok(false)
                    }
                };
                match mn2.as_str() {
                    "jmp" => {
                        let t = rest.strip_prefix("near ").unwrap_or(rest).trim();
                        if !is_reg(t) {
                            referenced.push((t.to_string(), lnn));
                        }
                    }
                    "je" | "jne" | "jl" | "jle" | "jg" | "jge" => referenced.push((rest.to_string(), lnn)),
                    "call" => {
                        // a call target must be one of the runtime's functions or declared `extern`
                        let declared = text.lines().any(|x| x.trim().strip_prefix("extern ").map_or(false, |n| n.trim() == rest));
                        if !["print_i64", "println_i64"].contains(&rest) && !declared && !defined.contains_key(rest) {
                            referenced.push((rest.to_string(), lnn));
                        }
                    }
                    "lea" => {
                        if let Some(l) = ops.get(1).and_then(|o| o.strip_prefix("[rel ")).and_then(|o| o.strip_suffix(']')) {
                            referenced.push((l.trim().to_string(), lnn));
                        } else {
                            unknown.push(l.to_string());
                        }
                    }
                    "push" | "pop" | "idiv" | "cqo" | "ret" => {
                        for o in &ops {
                            if !is_reg(o) && !mem_ok(o)? {
                                unknown.push(l.to_string());
                            }
                        }
                    }
                    "idiv qword" => {
                        if ops.len() != 1 || !mem_ok(&ops[0])? {
                            unknown.push(l.to_string());
                        }
                    }
                    "mov" | "add" | "sub" | "imul" | "cmp" | "mov qword" | "add qword" | "cmp qword" => {
                        if ops.len() != 2 {
                            // e.g. the three-operand imul: left to the assembler
                            unknown.push(l.to_string());
                            continue;
                        }
                        let d_mem = mem_ok(&ops[0])?;
                        let s_mem = mem_ok(&ops[1])?;
                        if d_mem && s_mem {
                            return Err(format!("line {lnn}: memory-to-memory `{mn2}`"));
                        }
                        let s_reg = is_reg(&ops[1]);
                        if !d_mem && !is_reg(&ops[0]) {
                            unknown.push(l.to_string());
                            continue;
                        }
                        if mn2 == "imul" && d_mem {
                            return Err(format!("line {lnn}: imul with a memory destination"));
                        }
                        if !s_reg && !s_mem {
                            let Ok(v) = imm(&ops[1]) else {
                                // a symbolic or otherwise unknown source operand
                                unknown.push(l.to_string());
                                continue;
                            };
                            // only `mov r64, imm64` takes a full 64-bit immediate
                            let wide_ok = mn2 == "mov" && !d_mem;
                            if !(wide_ok && fits(v, 64)) && !fits(v, 32) {
                                return Err(format!("line {lnn}: immediate {v} does not fit the 32-bit immediate of `{mn2}`"));
                            }
                            if d_mem && !mn2.ends_with("qword") {
                                return Err(format!("line {lnn}: immediate to memory without operand size"));
                            }
                        }
                    }
                    _ => unknown.push(l.to_string()),
                }
            }
            Arch::A64 => {
                if l == ".text" || l.starts_with(".global ") {
                    continue;
                }
                let ops: Vec<String> = rest
                    .split(',')
                    .map(|s| s.trim().trim_start_matches('[').trim_end_matches('!').trim_end_matches(']').trim().to_string())
                    .collect();
                let reg = |s: &str| crate::emu_a64::reg_index(s).is_some();
                match mn {
                    "B" | "BEQ" | "BNE" | "BLT" | "BLE" | "BGT" | "BGE" => referenced.push((rest.to_string(), lnn)),
                    "BL" => {
                        if !["print_i64", "println_i64"].contains(&rest) {
                            unknown.push(l.to_string());
                        }
                    }
                    "ADR" => referenced.push((ops.get(1).cloned().unwrap_or_default(), lnn)),
                    "ADD" | "SUB" | "CMP" => {
                        let last = ops.last().cloned().unwrap_or_default();
                        if !reg(&last) {
                            let Ok(v) = imm(&last) else {
                                // an operand form this validator does not know: left to the assembler
                                unknown.push(l.to_string());
                                continue;
                            };
                            let ok = (0..=4095).contains(&v) || (v % 4096 == 0 && (0..=4095).contains(&(v / 4096)));
                            if !ok {
                                return Err(format!("line {lnn}: immediate {v} does not fit the 12-bit immediate of {mn}"));
                            }
                        }
                    }
                    "MOVZ" | "MOVN" | "MOVK" => {
                        let Ok(v) = imm(ops.get(1).map(|s| s.as_str()).unwrap_or("")) else {
                            // an operand form this validator does not know: left to the assembler
                            unknown.push(l.to_string());
                            continue;
                        };
                        let sh = ops.get(2).and_then(|s| s.strip_prefix("LSL")).and_then(|s| imm(s).ok()).unwrap_or(-1);
                        if !(0..=65535).contains(&v) {
                            return Err(format!("line {lnn}: {mn} immediate {v} is not a 16-bit value"));
                        }
                        if ![0, 16, 32, 48].contains(&sh) {
                            return Err(format!("line {lnn}: {mn} shift {sh} is not 0, 16, 32 or 48"));
                        }
                    }
                    "LDR" | "STR" => {
                        let Ok(v) = imm(ops.get(2).map(|s| s.as_str()).unwrap_or("")) else {
                            // an operand form this validator does not know: left to the assembler
                            unknown.push(l.to_string());
                            continue;
                        };
                        let scaled = v >= 0 && v % 8 == 0 && v <= 32760;
                        let unscaled = (-256..=255).contains(&v);
                        if !scaled && !unscaled {
                            return Err(format!("line {lnn}: {mn} offset {v} is not encodable"));
                        }
                    }
                    "LDP" | "STP" => {
                        let Ok(v) = imm(ops.get(3).map(|s| s.as_str()).unwrap_or("")) else {
                            // an operand form this validator does not know: left to the assembler
                            unknown.push(l.to_string());
                            continue;
                        };
                        if v % 8 != 0 || !(-512..=504).contains(&v) {
                            return Err(format!("line {lnn}: {mn} offset {v} is not encodable"));
                        }
                    }
                    "MUL" | "SDIV" | "MSUB" | "MOV" | "BR" | "RET" => {}
                    _ => unknown.push(l.to_string()),
                }
            }
            Arch::Rv => {
                let t: Vec<&str> = l.split_whitespace().collect();
                match t[0] {
                    "JAL" | "LA" => referenced.push((t.get(2).unwrap_or(&"").to_string(), lnn)),
                    "BEQ" | "BNE" | "BLT" | "BLE" | "BGT" | "BGE" => referenced.push((t.get(3).unwrap_or(&"").to_string(), lnn)),
                    "ADD" => {
                        if let Some(x) = t.get(3) {
                            if !x.starts_with('X') {
                                let Ok(v) = imm(x) else {
                                    // an operand form this validator does not know: left to the assembler
                                    unknown.push(l.to_string());
                                    continue;
                                };
                                if !fits(v, 12) {
                                    return Err(format!("line {lnn}: ADD immediate {v} does not fit 12 bits"));
                                }
                            }
                        }
                    }
                    "LW" | "SW" => {
                        let Ok(v) = imm(t.get(2).unwrap_or(&"")) else {
                            // an operand form this validator does not know: left to the assembler
                            unknown.push(l.to_string());
                            continue;
                        };
                        if !fits(v, 12) {
                            return Err(format!("line {lnn}: {} offset {v} does not fit 12 bits", t[0]));
                        }
                    }
                    "JALR" => {
                        let Ok(v) = imm(t.get(3).unwrap_or(&"")) else {
                            // an operand form this validator does not know: left to the assembler
                            unknown.push(l.to_string());
                            continue;
                        };
                        if !fits(v, 12) {
                            return Err(format!("line {lnn}: JALR offset {v} does not fit 12 bits"));
                        }
                    }
                    "LI" => {
                        let Ok(v) = imm(t.get(2).unwrap_or(&"")) else {
                            // an operand form this validator does not know: left to the assembler
                            unknown.push(l.to_string());
                            continue;
                        };
                        if !fits(v, 64) {
                            return Err(format!("line {lnn}: LI immediate {v} does not fit 64 bits"));
                        }
                    }
                    "SUB" | "MUL" | "DIV" | "REM" | "MV" => {}
                    _ => unknown.push(l.to_string()),
                }
            }
        }
    }
    let _ = &unknown;
    let defined_set: HashSet<&String> = defined.keys().collect();
    for (r, ln) in &referenced {
        if !defined_set.contains(r) {
            return Err(format!("line {ln}: label `{r}` is referenced but not defined"));
        }
    }
    Ok(())
}

/// a jump to a label (not through a register)
fn reg_free_jump(l: &str) -> bool {
    let t = l.trim_start_matches("jmp ").trim_start_matches("near ").trim();
    crate::emu_x86::reg_index(t).is_none()
}

/// jump tables of the x86-64 text: (table label, number of entries, label following the table)
pub fn x86_tables(text: &str) -> Vec<(String, usize, String)> {
    let mut out = vec![];
    let lines: Vec<&str> = text.lines().map(|l| l.trim()).filter(|l| !l.is_empty() && !l.starts_with(';')).collect();
    let mut i = 0;
    while i < lines.len() {
        if let Some(name) = is_label_line(lines[i]) {
            // a table: a label followed by consecutive unconditional jumps (two or more, or one
            // `jmp near`); ordinary code never has two unconditional jumps in a row
            let mut j = i + 1;
            let mut n = 0;
            let mut near = 0;
            while j < lines.len() && lines[j].starts_with("jmp ") && reg_free_jump(lines[j]) {
                n += 1;
                if lines[j].starts_with("jmp near ") {
                    near += 1;
                }
                j += 1;
            }
            if (n >= 2 || near == 1) && j < lines.len() {
                if let Some(next) = is_label_line(lines[j]) {
                    out.push((name.to_string(), n, next.to_string()));
                }
            }
            i = j.max(i + 1);
        } else {
            i += 1;
        }
    }
    out
}

/// symbol name -> value for an ELF64 little-endian relocatable object
pub fn elf_symbols(obj: &[u8]) -> Option<HashMap<String, u64>> {
    let rd16 = |o: usize| -> Option<u64> { Some(u16::from_le_bytes(obj.get(o..o + 2)?.try_into().ok()?) as u64) };
    let rd32 = |o: usize| -> Option<u64> { Some(u32::from_le_bytes(obj.get(o..o + 4)?.try_into().ok()?) as u64) };
    let rd64 = |o: usize| -> Option<u64> { Some(u64::from_le_bytes(obj.get(o..o + 8)?.try_into().ok()?)) };
    if obj.get(0..4)? != b"\x7fELF" || obj[4] != 2 {
        return None;
    }
    let shoff = rd64(0x28)? as usize;
    let shentsize = rd16(0x3a)? as usize;
    let shnum = rd16(0x3c)? as usize;
    let mut out = HashMap::new();
    for i in 0..shnum {
        let sh = shoff + i * shentsize;
        let ty = rd32(sh + 4)?;
        if ty != 2 {
            continue; // SHT_SYMTAB
        }
        let off = rd64(sh + 0x18)? as usize;
        let size = rd64(sh + 0x20)? as usize;
        let link = rd32(sh + 0x28)? as usize;
        let entsize = rd64(sh + 0x38)? as usize;
        let strsh = shoff + link * shentsize;
        let stroff = rd64(strsh + 0x18)? as usize;
        let n = if entsize == 0 { 0 } else { size / entsize };
        for k in 0..n {
            let e = off + k * entsize;
            let name_off = rd32(e)? as usize;
            let value = rd64(e + 8)?;
            let start = stroff + name_off;
            let end = obj[start..].iter().position(|b| *b == 0)? + start;
            let name = String::from_utf8_lossy(&obj[start..end]).into_owned();
            if !name.is_empty() {
                out.insert(name, value);
            }
        }
    }
    Some(out)
}

//! C06 / C07 / C08 (and the executions audited for C09, C10, C13): code generation preserves
//! AxCut semantics — positional AxCut machine vs emulation of the printed assembly text.

use super::common::*;
use crate::emu_common::*;
use crate::fun_ast::{Program, emit_program};
use crate::gen_fun::{GenCfg, gen_program_with_args};
use crate::heapcheck::{self, AuditStats};
use crate::mach_axcut::{self, PrintEvent};
use crate::pipeline::{self, Arch, StageError};
use crate::ref_fun::Outcome;
use crate::runner::*;
use serde_json::json;

pub const HEAP_WORDS: usize = 1 << 17;

pub fn emulate(arch: Arch, text: &str, args: &[i64], max_steps: u64, audit: Option<Auditor>) -> EmuResult {
    match arch {
        Arch::X86 => crate::emu_x86::run_text(text, args, max_steps, HEAP_WORDS, audit),
        Arch::A64 => crate::emu_a64::run_text(text, args, max_steps, HEAP_WORDS, audit),
        Arch::Rv => crate::emu_rv::run_text(text, args, max_steps, HEAP_WORDS, audit),
    }
}

pub fn cfg_for(ctx: &Ctx, arch: Arch) -> GenCfg {
    GenCfg {
        size: ctx.tier.pick(40, 70),
        max_defs: 4,
        max_main_params: 5,
        reuse: 50,
        no_print: arch == Arch::Rv,
        ..GenCfg::default()
    }
}

pub fn decode(ctx: &Ctx, arch: Arch, bytes: &[u8]) -> FunCase {
    let (prog, tuples, _gs) = gen_program_with_args(bytes, &cfg_for(ctx, arch), 2, true);
    FunCase { prog, tuples }
}

pub struct BackendRun {
    pub events: Vec<PrintEvent>,
    pub result: i64,
    pub ax: mach_axcut::AxStats,
    pub audit: AuditStats,
    pub emu_steps: u64,
    pub max_sp_depth: u64,
}

/// Is this fault the emulated heap running out (not a property of the code)?
fn heap_exhausted(f: &Fault) -> bool {
    if let Fault::BadAddress(s) = f {
        let end = HEAP_BASE + 8 * HEAP_WORDS as u64;
        for tok in s.split(|c: char| !c.is_ascii_hexdigit() && c != 'x') {
            if let Some(h) = tok.strip_prefix("0x") {
                if let Ok(a) = u64::from_str_radix(h, 16) {
                    if a >= end && a < end + (1 << 20) {
                        return true;
                    }
                }
            }
        }
    }
    false
}

pub enum LinOutcome {
    Discard(String),
    Fail(Failure),
    Ok(BackendRun),
}

/// run one linearized program with one argument tuple on the machine and on the emulator
pub fn run_linear(
    ctx: &Ctx,
    arch: Arch,
    linear: &axcut::syntax::Prog,
    asm: &str,
    args: &[i64],
    with_audit: bool,
    context: &serde_json::Value,
) -> LinOutcome {
    let fuel = ctx.tier.pick(150_000, 400_000);
    let fail = |kind: &str, summary: String, extra: serde_json::Value| {
        let mut d = context.clone();
        d["args"] = json!(args);
        d["arch"] = json!(arch.name());
        if let (Some(o), Some(e)) = (d.as_object_mut(), extra.as_object()) {
            for (k, v) in e {
                o.insert(k.clone(), v.clone());
            }
        }
        LinOutcome::Fail(Failure { kind: kind.into(), summary, details: d })
    };
    let (o, ax, events) = mach_axcut::run_positional(linear, args, fuel);
    let result = match o {
        Outcome::Done { result, .. } => result,
        Outcome::Stuck(s) => return LinOutcome::Discard(format!("linear program not well-typed (decided by C05/C12): {}", &s[..s.len().min(40)])),
        Outcome::Undefined(_) => return LinOutcome::Discard("undefined".into()),
        Outcome::OutOfFuel => return LinOutcome::Discard("over budget".into()),
    };
    let mut stats = AuditStats::default();
    let res = if with_audit {
        let mut auditor = |v: &dyn View, m: &Marker| heapcheck::audit(v, m, &mut stats);
        emulate(arch, asm, args, ax.steps * 4000 + 2_000_000, Some(&mut auditor))
    } else {
        emulate(arch, asm, args, ax.steps * 4000 + 2_000_000, None)
    };
    match &res.outcome {
        Err(Fault::Unsupported(s)) => return LinOutcome::Discard(format!("infra: emulator: {s}")),
        Err(f) if heap_exhausted(f) => return LinOutcome::Discard("emulated heap exhausted".into()),
        Err(Fault::HeapAudit(s)) => {
            return fail("heap", format!("{}: heap inconsistent at a statement boundary: {s}", arch.name()), json!({}));
        }
        Err(f @ Fault::CallingConvention(_)) => {
            return fail("callconv", format!("{}: {f}", arch.name()), json!({}));
        }
        Err(f) => {
            return fail(
                "fault",
                format!("{}: emulated code faults where the AxCut machine returns {result}: {f}", arch.name()),
                json!({"events_before_fault": res.events.iter().map(|e| e.value).collect::<Vec<_>>()}),
            );
        }
        Ok(v) => {
            if res.events != events {
                return fail(
                    "mismatch",
                    format!("{}: print calls differ from the AxCut machine", arch.name()),
                    json!({"expected_prints": events.iter().map(|e| (e.newline, e.value)).collect::<Vec<_>>(),
                           "observed_prints": res.events.iter().map(|e| (e.newline, e.value)).collect::<Vec<_>>()}),
                );
            }
            if *v != result as u64 {
                return fail(
                    "mismatch",
                    format!("{}: returned {} but the AxCut machine returns {result}", arch.name(), *v as i64),
                    json!({}),
                );
            }
        }
    }
    if with_audit && res.markers_seen == 0 {
        return LinOutcome::Discard("infra: no @env markers in the emitted code (hook not enabled?)".into());
    }
    LinOutcome::Ok(BackendRun { events, result, ax, audit: stats, emu_steps: res.steps, max_sp_depth: res.max_sp_depth })
}

pub fn compile_fun(text: &str, arch: Arch) -> Result<(axcut::syntax::Prog, String), CaseResult> {
    let compiled = match pipeline::front(text) {
        Ok(c) => c,
        Err(StageError::Panic { .. }) => return Err(CaseResult::Discard("earlier stage failed (decided by C12)".into())),
        Err(_) => return Err(CaseResult::Discard("rejected by the front end (decided by C15)".into())),
    };
    match pipeline::codegen(compiled.linear.clone(), arch) {
        Ok((asm, _)) => Ok((compiled.linear, asm)),
        Err(StageError::Panic { msg, .. }) if pipeline::is_capacity_panic(&msg) => Err(CaseResult::Discard("capacity".into())),
        Err(StageError::Panic { msg, .. }) if arch == Arch::Rv && msg.contains("not implemented") => {
            Err(CaseResult::Discard("print on RISC-V (documented as not implemented)".into()))
        }
        Err(e) => Err(CaseResult::Fail(Failure {
            kind: "internal".into(),
            summary: format!("{}: code generation failed: {e}", arch.name()),
            details: json!({"source": text}),
        })),
    }
}

pub fn run_fun_case(ctx: &Ctx, arch: Arch, prog: &Program, tuples: &[Vec<i64>], with_audit: bool) -> (CaseResult, Vec<BackendRun>) {
    let text = emit_program(prog);
    let (linear, asm) = match compile_fun(&text, arch) {
        Ok(x) => x,
        Err(r) => return (r, vec![]),
    };
    let context = json!({"source": text});
    let mut runs = vec![];
    let mut last_discard = None;
    for t in tuples {
        match run_linear(ctx, arch, &linear, &asm, t, with_audit, &context) {
            LinOutcome::Discard(w) => last_discard = Some(w),
            LinOutcome::Fail(mut f) => {
                f.details["linearized"] = json!(printer::Print::print_to_string(&linear, None));
                return (CaseResult::Fail(f), runs);
            }
            LinOutcome::Ok(r) => runs.push(r),
        }
    }
    if runs.is_empty() {
        return (CaseResult::Discard(last_discard.unwrap_or_else(|| "no run".into())), runs);
    }
    let mut classes = program_classes(prog);
    let mut nontrivial = false;
    for r in &runs {
        let mut add = |b: bool, s: &str| {
            if b && !classes.iter().any(|c| c == s) {
                classes.push(s.to_string());
            }
        };
        add(r.ax.max_env > 6, "env>6 (x86 spills)");
        add(r.ax.max_env > 13, "env>13 (aarch64 spills)");
        add(r.ax.big_objects > 0, "object>3fields");
        add(r.ax.dup_objects > 0, "shared object");
        add(r.ax.drop_objects > 0, "dropped object");
        add(r.ax.prints > 0, "print");
        add(r.audit.saw_count_gt0, "heap:count>0");
        add(r.audit.saw_deferred, "heap:deferred list used");
        add(r.audit.saw_waiting, "heap:blocks waiting beneath deferred");
        add(r.audit.saw_reusable_gt1, "heap:reusable list>1");
        add(r.audit.saw_chain, "heap:multi-block chain");
        if r.ax.max_env > 6 || r.ax.big_objects > 0 || r.ax.dup_objects > 0 {
            nontrivial = true;
        }
    }
    (
        CaseResult::Pass {
            nontrivial,
            hash: hash_str(&format!("{text}{tuples:?}")),
            classes,
            sample: Some(json!({"source": text, "args": tuples})),
        },
        runs,
    )
}

// ------------------------------------------------------------------------------------------
// second domain: directly generated linear AxCut programs (gen_lin)
// ------------------------------------------------------------------------------------------

use crate::gen_lin::{LinCfg, LinStats, gen_linear};

pub fn lin_cfg_for(ctx: &Ctx, arch: Arch) -> LinCfg {
    match arch {
        Arch::Rv => LinCfg {
            max_env: 10,
            size: ctx.tier.pick(30, 50),
            allow_print: false,
            max_main_params: 5,
            max_fields: 4,
            hard_cap: 14,
            ..LinCfg::default()
        },
        Arch::X86 => LinCfg { max_env: 24, size: ctx.tier.pick(36, 60), max_main_params: 5, wide: 50, floor: (5, 10), ..LinCfg::default() },
        Arch::A64 => LinCfg { max_env: 24, size: ctx.tier.pick(36, 60), max_main_params: 7, wide: 128, floor: (11, 17), max_fields: 16, ..LinCfg::default() },
    }
}

pub struct LinCase {
    pub prog: axcut::syntax::Prog,
    pub tuples: Vec<Vec<i64>>,
    pub gstats: LinStats,
}

pub fn decode_lin(cfg: &LinCfg, bytes: &[u8]) -> LinCase {
    let (prog, tuples, gstats) = gen_linear(bytes, cfg, 2);
    LinCase { prog, tuples, gstats }
}

/// third domain of the backend checks: a directly generated Core program (gen_core) taken through
/// focusing, shrinking and linearization; None if a stage fails (decided by C12)
pub fn decode_core_lin(ctx: &Ctx, arch: Arch, bytes: &[u8]) -> Option<LinCase> {
    let cfg = crate::gen_core::CoreCfg {
        size: ctx.tier.pick(26, 40),
        max_defs: 3,
        max_main_params: if arch == Arch::A64 { 7 } else { 5 },
        reuse: 60,
        allow_print: arch != Arch::Rv,
    };
    let (prog, tuples, _) = crate::gen_core::gen_core(bytes, &cfg);
    let linear = pipeline::focus(prog).and_then(pipeline::shrink).and_then(pipeline::linearize).ok()?;
    Some(LinCase { prog: linear, tuples, gstats: LinStats::default() })
}

pub fn run_core_lin_case(ctx: &Ctx, arch: Arch, bytes: &[u8], with_audit: bool) -> (CaseResult, Vec<BackendRun>) {
    match decode_core_lin(ctx, arch, bytes) {
        Some(c) => run_lin_case(ctx, arch, &c, with_audit),
        None => (CaseResult::Discard("an earlier stage failed on the generated Core program (decided by C12)".into()), vec![]),
    }
}

pub fn codegen_linear(prog: &axcut::syntax::Prog, arch: Arch) -> Result<String, CaseResult> {
    match pipeline::codegen(prog.clone(), arch) {
        Ok((asm, _)) => Ok(asm),
        Err(StageError::Panic { msg, .. }) if pipeline::is_capacity_panic(&msg) => Err(CaseResult::Discard("capacity".into())),
        Err(e) => Err(CaseResult::Fail(Failure {
            kind: "internal".into(),
            summary: format!("{}: code generation failed: {e}", arch.name()),
            details: json!({"linearized": printer::Print::print_to_string(prog, None)}),
        })),
    }
}

pub fn run_lin_case(ctx: &Ctx, arch: Arch, c: &LinCase, with_audit: bool) -> (CaseResult, Vec<BackendRun>) {
    let text = printer::Print::print_to_string(&c.prog, None);
    if let Err(e) = crate::tc_axcut::check_linear(&c.prog) {
        return (
            CaseResult::Fail(Failure {
                kind: "harness".into(),
                summary: format!("harness error: generated linear program is not well-typed: {e}"),
                details: json!({"linearized": text}),
            }),
            vec![],
        );
    }
    let asm = match codegen_linear(&c.prog, arch) {
        Ok(a) => a,
        Err(r) => return (r, vec![]),
    };
    let context = json!({"linearized": text});
    let mut runs = vec![];
    let mut last_discard = None;
    for t in &c.tuples {
        match run_linear(ctx, arch, &c.prog, &asm, t, with_audit, &context) {
            LinOutcome::Discard(w) => last_discard = Some(w),
            LinOutcome::Fail(f) => return (CaseResult::Fail(f), runs),
            LinOutcome::Ok(r) => runs.push(r),
        }
    }
    if runs.is_empty() {
        return (CaseResult::Discard(last_discard.unwrap_or_else(|| "no run".into())), runs);
    }
    let mut classes: Vec<String> = vec![];
    let mut nontrivial = false;
    for r in &runs {
        let mut add = |b: bool, s: &str| {
            if b && !classes.iter().any(|c| c == s) {
                classes.push(s.to_string());
            }
        };
        add(r.ax.max_env > 6, "env>6 (x86 spills)");
        add(r.ax.max_env > 13, "env>13 (aarch64 spills)");
        add(r.ax.max_env == 13, "env==13");
        add(r.ax.big_objects > 0, "object>3fields");
        add(r.ax.dup_objects > 0, "shared object");
        add(r.ax.drop_objects > 0, "dropped object");
        add(r.ax.prints > 0, "print");
        add(r.ax.invokes > 0, "invoke");
        add(r.ax.switches > 0, "switch");
        add(r.ax.calls > 0, "call");
        add(r.audit.saw_count_gt0, "heap:count>0");
        add(r.audit.saw_deferred, "heap:deferred list used");
        add(r.audit.saw_waiting, "heap:blocks waiting beneath deferred");
        add(r.audit.saw_reusable_gt1, "heap:reusable list>1");
        add(r.audit.saw_chain, "heap:multi-block chain");
        if r.ax.max_env > 6 || r.ax.big_objects > 0 || r.ax.dup_objects > 0 {
            nontrivial = true;
        }
    }
    if c.gstats.big_literals > 0 {
        classes.push("literal beyond 32 bits".into());
    }
    (
        CaseResult::Pass {
            nontrivial,
            hash: hash_str(&format!("{text}{:?}", c.tuples)),
            classes,
            sample: Some(json!({"linearized": text, "args": c.tuples})),
        },
        runs,
    )
}

//! C01 — the x86-64 executable behaves like the source program (native execution vs `ref_fun`).

use super::common::*;
use crate::fun_ast::{Program, emit_program};
use crate::gen_fun::{GenCfg, gen_program_with_args};
use crate::native::{NativeError, Toolchain};
use crate::pipeline::{self, Arch, StageError};
use crate::ref_fun::{self, Outcome};
use crate::runner::*;
use serde_json::json;
use std::sync::atomic::{AtomicU64, Ordering};
use std::time::{Duration, Instant};

static TAG: AtomicU64 = AtomicU64::new(0);

pub fn cfg_for(ctx: &Ctx) -> GenCfg {
    GenCfg { size: ctx.tier.pick(40, 70), max_defs: ctx.tier.pick(4, 6), max_main_params: 5, ..GenCfg::default() }
}

pub fn decode(ctx: &Ctx, bytes: &[u8]) -> FunCase {
    let (prog, tuples, _gs) = gen_program_with_args(bytes, &cfg_for(ctx), 2, true);
    FunCase { prog, tuples }
}

pub fn run_case(ctx: &Ctx, tc: &Toolchain, prog: &Program, tuples: &[Vec<i64>]) -> CaseResult {
    let fuel = ctx.tier.pick(20_000, 100_000);
    let text = emit_program(prog);
    let fail = |kind: &str, summary: String, details: serde_json::Value| {
        CaseResult::Fail(Failure { kind: kind.into(), summary, details })
    };
    let mut expected = vec![];
    let mut any_defined = false;
    for t in tuples {
        let (o, st) = ref_fun::run(prog, t, fuel);
        if let Outcome::Stuck(s) = &o {
            return fail(
                "harness",
                format!("harness error: reference interpreter stuck: {s}"),
                json!({"source": text, "args": t}),
            );
        }
        if matches!(o, Outcome::Done { .. }) {
            any_defined = true;
        }
        expected.push((o, st));
    }
    if !any_defined {
        return CaseResult::Discard(match &expected[0].0 {
            Outcome::Undefined(_) => "undefined".into(),
            _ => "over budget".into(),
        });
    }
    let compiled = match pipeline::front(&text) {
        Ok(c) => c,
        Err(StageError::Parse(_)) => return CaseResult::Discard("rejected by the parser (decided by C15/C16)".into()),
        Err(StageError::Check(_)) => return CaseResult::Discard("rejected by the checker (decided by C15)".into()),
        Err(StageError::Panic { stage, msg }) => {
            if pipeline::is_capacity_panic(&msg) {
                return CaseResult::Discard("capacity".into());
            }
            return fail("internal", format!("internal failure in {stage}: {msg}"), json!({"source": text}));
        }
    };
    let (asm, nargs) = match pipeline::codegen(compiled.linear, Arch::X86) {
        Ok(x) => x,
        Err(StageError::Panic { msg, .. }) if pipeline::is_capacity_panic(&msg) => {
            return CaseResult::Discard("capacity".into());
        }
        Err(e) => return fail("internal", format!("internal failure: {e}"), json!({"source": text})),
    };
    let tag = format!("c{}", TAG.fetch_add(1, Ordering::Relaxed));
    let exe = match tc.build_exe(&asm, nargs, &tag) {
        Ok(e) => e,
        Err(NativeError::Assemble(msg)) => {
            return fail("assembler", format!("assembler rejected the emitted file: {msg}"), json!({"source": text}));
        }
        Err(NativeError::Infra(msg)) => return CaseResult::Discard(format!("infra: {msg}")),
    };
    let mut classes = program_classes(prog);
    let mut nontrivial = false;
    let mut result = None;
    for (t, (o, st)) in tuples.iter().zip(expected.iter()) {
        let Outcome::Done { out, result: r } = o else { continue };
        let args: Vec<String> = t.iter().map(|a| a.to_string()).collect();
        let run = match crate::native::run_with_timeout(&exe, &args, Duration::from_secs(10)) {
            Ok(r) => r,
            Err(e) => {
                result = Some(CaseResult::Discard(format!("infra: {e}")));
                break;
            }
        };
        if run.timed_out {
            result = Some(CaseResult::Discard("infra: watchdog (inconclusive)".into()));
            break;
        }
        let want_code = (r & 0xff) as i32;
        if run.stdout != *out || run.code != Some(want_code) {
            let kind = if run.signal.is_some() { "signal" } else { "mismatch" };
            result = Some(fail(
                kind,
                format!(
                    "executable disagrees with the source semantics (args {:?}): expected status {} got {:?}{}",
                    t,
                    want_code,
                    run.code,
                    run.signal.map(|s| format!(" signal {s}")).unwrap_or_default()
                ),
                json!({
                    "source": text,
                    "args": t,
                    "expected_stdout": String::from_utf8_lossy(out),
                    "observed_stdout": String::from_utf8_lossy(&run.stdout),
                    "expected_status": want_code,
                    "observed_status": run.code,
                    "signal": run.signal,
                }),
            ));
            break;
        }
        if nontrivial_run(st) {
            nontrivial = true;
        }
        for c in run_classes(st) {
            if !classes.contains(&c) {
                classes.push(c);
            }
        }
        if t.iter().any(|a| *a > i32::MAX as i64 || *a < i32::MIN as i64) {
            classes.push("args:beyond-32-bit".into());
        }
    }
    let _ = std::fs::remove_file(&exe);
    if let Some(r) = result {
        return r;
    }
    CaseResult::Pass {
        nontrivial,
        hash: hash_str(&format!("{text}{tuples:?}")),
        classes,
        sample: Some(json!({"source": text, "args": tuples, "expected": expected.iter().map(|(o, _)| outcome_json(o)).collect::<Vec<_>>()})),
    }
}

pub fn check(ctx: &Ctx) -> i32 {
    let start = Instant::now();
    let tc = Toolchain::new(ctx.scratch.clone());
    let mut ev = Evidence::default();
    ev.rule = "type-directed generated Fun programs (choice bytes from proptest vec<u8>, seeded) x 2 argument tuples; compiled through the repository's stages, assembled with GNU as, linked with the repository's driver and io.c, run natively; oracle = CEK reference interpreter (stdout bytes, exit status = result mod 256). Non-trivial: the reference run executes a call of a non-main definition, a case on constructed data or a destructor; distinct by hash of (source, arguments). Undefined / over-budget runs are discarded.".into();
    ev.assumptions = vec![
        "GNU as (intel syntax) stands in for yasm after a syntax-only transliteration".into(),
        "reference semantics as pinned in DESIGN.md 3.1".into(),
    ];
    let n = ctx.tier.pick(3000, 100000);
    let run = |b: &[u8]| {
        let c = decode(ctx, b);
        run_case(ctx, &tc, &c.prog, &c.tuples)
    };
    let out = drive(&mut ev, ctx.seed, 1, n, 100, 3000, 120, &run);
    let mut report = Report { violations: vec![], infra_errors: vec![] };
    if let Some((bytes, f)) = out.failure {
        let c = decode(ctx, &bytes);
        let (c2, f2) = shrink_fun_case(&c, &f, 1500, &|p, t| run_case(ctx, &tc, p, t));
        eprintln!("{}", f2.summary);
        report.violations.push(write_replay_with(ctx, "native", &bytes, &f2, fun_case_json(&c2)));
    }
    let infra: u64 = ev.discards.iter().filter(|(k, _)| k.starts_with("infra")).map(|(_, v)| *v).sum();
    if infra > 0 {
        report.infra_errors.push(format!("{infra} cases hit an infrastructure problem (see evidence)"));
    }
    finish(ctx, &ev, &report, start)
}

pub fn replay(ctx: &Ctx, _sub: &str, bytes: &[u8], case: &serde_json::Value) -> CaseResult {
    let tc = Toolchain::new(ctx.scratch.clone());
    let c = fun_case_from_json(case).unwrap_or_else(|| decode(ctx, bytes));
    run_case(ctx, &tc, &c.prog, &c.tuples)
}

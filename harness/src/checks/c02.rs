//! C02 — Fun -> Core preserves meaning and never captures (reference interpreter vs Core machine).

use super::common::*;
use crate::fun_ast::{Program, emit_program};
use crate::gen_fun::{GenCfg, gen_program_with_args};
use crate::mach_core;
use crate::pipeline::{self, StageError};
use crate::ref_fun::{self, Outcome};
use crate::runner::*;
use serde_json::json;
use std::collections::HashSet;
use std::time::Instant;

pub fn cfg_for(ctx: &Ctx) -> GenCfg {
    GenCfg {
        size: ctx.tier.pick(36, 60),
        max_defs: 4,
        max_main_params: 3,
        effects_in_args: false,
        reuse: 130,
        adversarial: true,
        ..GenCfg::default()
    }
}

pub fn decode(ctx: &Ctx, bytes: &[u8]) -> FunCase {
    let (prog, tuples, _gs) = gen_program_with_args(bytes, &cfg_for(ctx), 2, false);
    FunCase { prog, tuples }
}

/// binders that shadow a name in scope (counted on the harness AST)
pub fn count_shadowing(p: &Program) -> usize {
    use crate::fun_ast::{Arg, Tm};
    fn go(t: &Tm, scope: &mut Vec<String>, n: &mut usize) {
        let mut bind = |name: &String, scope: &mut Vec<String>, n: &mut usize| {
            if scope.contains(name) {
                *n += 1;
            }
            scope.push(name.clone());
        };
        let args = |a: &Vec<Arg>, scope: &mut Vec<String>, n: &mut usize| {
            for x in a {
                if let Arg::Tm { t, .. } = x {
                    go(t, scope, n);
                }
            }
        };
        match t {
            Tm::Lit(_) | Tm::Var(_) => {}
            Tm::Op(a, _, b) => {
                go(a, scope, n);
                go(b, scope, n);
            }
            Tm::If { fst, snd, thn, els, .. } => {
                go(fst, scope, n);
                if let Some(s) = snd {
                    go(s, scope, n);
                }
                go(thn, scope, n);
                go(els, scope, n);
            }
            Tm::Print { arg, next, .. } => {
                go(arg, scope, n);
                go(next, scope, n);
            }
            Tm::Let { var, bound, body, .. } => {
                go(bound, scope, n);
                bind(var, scope, n);
                go(body, scope, n);
                scope.pop();
            }
            Tm::Call { args: a, .. } | Tm::Ctor { args: a, .. } => args(a, scope, n),
            Tm::Dtor { scrut, args: a, .. } => {
                go(scrut, scope, n);
                args(a, scope, n);
            }
            Tm::Case { scrut, clauses, .. } => {
                go(scrut, scope, n);
                for c in clauses {
                    let m = scope.len();
                    for b in &c.binders {
                        bind(b, scope, n);
                    }
                    go(&c.body, scope, n);
                    scope.truncate(m);
                }
            }
            Tm::New { clauses } => {
                for c in clauses {
                    let m = scope.len();
                    for b in &c.binders {
                        bind(b, scope, n);
                    }
                    go(&c.body, scope, n);
                    scope.truncate(m);
                }
            }
            Tm::Label { name, body } => {
                bind(name, scope, n);
                go(body, scope, n);
                scope.pop();
            }
            Tm::Goto { arg, .. } => go(arg, scope, n),
            Tm::Exit(a) | Tm::Paren(a) => go(a, scope, n),
        }
    }
    let mut n = 0;
    for d in &p.defs {
        let mut scope: Vec<String> = d.params.iter().map(|p| p.name.clone()).collect();
        go(&d.body, &mut scope, &mut n);
    }
    n
}

pub fn compare(src: &Outcome, tgt: &Outcome) -> Option<String> {
    match (src, tgt) {
        (Outcome::Done { out: o1, result: r1 }, Outcome::Done { out: o2, result: r2 }) => {
            if o1 != o2 {
                Some("different output".into())
            } else if r1 != r2 {
                Some(format!("different result: {r1} vs {r2}"))
            } else {
                None
            }
        }
        (Outcome::Done { .. }, Outcome::Undefined(_)) => Some("target performs an undefined operation".into()),
        (Outcome::Done { .. }, Outcome::OutOfFuel) => Some("target does not terminate within 200x the source's steps".into()),
        (Outcome::Done { .. }, Outcome::Stuck(s)) => Some(format!("target machine stuck: {s}")),
        _ => None,
    }
}

pub fn run_case(ctx: &Ctx, prog: &Program, tuples: &[Vec<i64>]) -> CaseResult {
    let fuel = ctx.tier.pick(20_000, 60_000);
    let text = emit_program(prog);
    let fail = |kind: &str, summary: String, details: serde_json::Value| {
        CaseResult::Fail(Failure { kind: kind.into(), summary, details })
    };
    let parsed = match pipeline::parse(&text).and_then(pipeline::check) {
        Ok(c) => c,
        Err(StageError::Panic { stage, msg }) => {
            return fail("internal", format!("internal failure in {stage}: {msg}"), json!({"source": text}));
        }
        Err(_) => return CaseResult::Discard("rejected by the front end (decided by C15)".into()),
    };
    let core = match pipeline::to_core(parsed) {
        Ok(c) => c,
        Err(e) => return fail("internal", format!("{e}"), json!({"source": text})),
    };
    // hygiene: top-level labels are pairwise distinct
    let mut seen = HashSet::new();
    for d in &core.defs {
        if !seen.insert((d.name.name.clone(), d.name.id)) {
            return fail(
                "label-clash",
                format!("generated top-level label coincides with another definition: {}", d.name.name),
                json!({"source": text}),
            );
        }
    }
    let cprog = mach_core::from_prog(&core);
    let mut any = false;
    let mut nontrivial = false;
    let mut classes = program_classes(prog);
    let shadow = count_shadowing(prog);
    if shadow > 0 {
        classes.push("shadowing-binder".into());
    }
    for t in tuples {
        let (o, st) = ref_fun::run(prog, t, fuel);
        match &o {
            Outcome::Stuck(s) => {
                return fail("harness", format!("harness error: reference interpreter stuck: {s}"), json!({"source": text, "args": t}));
            }
            Outcome::Done { .. } => {}
            _ => continue,
        }
        any = true;
        let (o2, _cs) = mach_core::run(&cprog, t, st.steps * 200 + 100_000);
        if let Some(why) = compare(&o, &o2) {
            return fail(
                "mismatch",
                format!("Core program differs from the source semantics (args {t:?}): {why}"),
                json!({"source": text, "args": t, "expected": outcome_json(&o), "observed": outcome_json(&o2),
                       "core": printer::Print::print_to_string(&core, None)}),
            );
        }
        if shadow > 0 && nontrivial_run(&st) {
            nontrivial = true;
        }
        for c in run_classes(&st) {
            if !classes.contains(&c) {
                classes.push(c);
            }
        }
    }
    if !any {
        return CaseResult::Discard("undefined or over budget".into());
    }
    CaseResult::Pass {
        nontrivial,
        hash: hash_str(&format!("{text}{tuples:?}")),
        classes,
        sample: Some(json!({"source": text, "args": tuples})),
    }
}

pub fn check(ctx: &Ctx) -> i32 {
    let start = Instant::now();
    let mut ev = Evidence::default();
    ev.rule = "generated well-typed Fun programs in the effect-sequenced fragment (arguments of calls/constructors/destructors/operators and codata-typed bindings pure and total), binder names reused with probability 1/2 and drawn from a pool of compiler-style names (x0, a0, share_f_0, lab1, ...); oracle: Core abstract machine on compile_prog's output vs the CEK reference interpreter on the source (output, result, termination) plus distinctness of all top-level labels. Non-trivial: the program contains a binder shadowing a name in scope and the run executes a call, case or destructor; distinct by hash of (source, arguments).".into();
    ev.assumptions = vec!["Core machine and reference interpreter as in DESIGN.md 3.1/3.2".into()];
    let n = ctx.tier.pick(24000, 400000);
    let run = |b: &[u8]| {
        let c = decode(ctx, b);
        run_case(ctx, &c.prog, &c.tuples)
    };
    let out = drive(&mut ev, ctx.seed, 2, n, 100, 3000, 200, &run);
    let mut report = Report { violations: vec![], infra_errors: vec![] };
    if let Some((bytes, f)) = out.failure {
        let c = decode(ctx, &bytes);
        let (c2, f2) = shrink_fun_case(&c, &f, 3000, &|p, t| run_case(ctx, p, t));
        eprintln!("{}", f2.summary);
        report.violations.push(write_replay_with(ctx, "core", &bytes, &f2, fun_case_json(&c2)));
    }
    finish(ctx, &ev, &report, start)
}

pub fn replay(ctx: &Ctx, _sub: &str, bytes: &[u8], case: &serde_json::Value) -> CaseResult {
    let c = fun_case_from_json(case).unwrap_or_else(|| decode(ctx, bytes));
    run_case(ctx, &c.prog, &c.tuples)
}

//! C03 — focusing preserves Core semantics (Core machine on Prog vs on Prog::focus()) and leaves
//! all binders along every path distinct.

use super::c02::compare;
use super::common::*;
use crate::fun_ast::{Program, emit_program};
use crate::gen_fun::{GenCfg, gen_program_with_args};
use crate::mach_core;
use crate::pipeline::{self, StageError};
use crate::ref_fun::Outcome;
use crate::runner::*;
use core_lang::syntax as cs;
use serde_json::json;
use std::collections::HashSet;
use std::time::Instant;

pub fn cfg_for(ctx: &Ctx) -> GenCfg {
    GenCfg { size: ctx.tier.pick(36, 60), max_defs: 4, max_main_params: 3, reuse: 90, ..GenCfg::default() }
}

pub fn decode(ctx: &Ctx, bytes: &[u8]) -> FunCase {
    let (prog, tuples, _gs) = gen_program_with_args(bytes, &cfg_for(ctx), 2, false);
    FunCase { prog, tuples }
}

// ---- structural invariant on the focused program ----

struct Uniq {
    max_id: usize,
    err: Option<String>,
}

impl Uniq {
    fn bind(&mut self, id: &cs::Identifier, path: &mut HashSet<usize>, added: &mut Vec<usize>) {
        if id.id == 0 {
            self.err.get_or_insert(format!("binder {} has id 0 after uniquify", id.name));
        } else if id.id > self.max_id {
            self.err
                .get_or_insert(format!("binder {}_{} exceeds max_id {}", id.name, id.id, self.max_id));
        } else if !path.insert(id.id) {
            self.err.get_or_insert(format!("binder {}_{} is bound twice along one path", id.name, id.id));
        } else {
            added.push(id.id);
        }
    }

    fn term<C: cs::Chi>(&mut self, t: &cs::FsTerm<C>, path: &mut HashSet<usize>) {
        match t {
            cs::FsTerm::XVar(_) | cs::FsTerm::Literal(_) | cs::FsTerm::Op(_) | cs::FsTerm::Xtor(_) => {}
            cs::FsTerm::Mu(m) => {
                let mut added = vec![];
                self.bind(&m.variable, path, &mut added);
                self.stmt(&m.statement, path);
                for a in added {
                    path.remove(&a);
                }
            }
            cs::FsTerm::XCase(x) => {
                for c in &x.clauses {
                    let mut added = vec![];
                    for b in &c.context.bindings {
                        self.bind(&b.var, path, &mut added);
                    }
                    self.stmt(&c.body, path);
                    for a in added {
                        path.remove(&a);
                    }
                }
            }
        }
    }

    fn stmt(&mut self, s: &cs::FsStatement, path: &mut HashSet<usize>) {
        match s {
            cs::FsStatement::Cut(c) => {
                self.term(&c.producer, path);
                self.term(&c.consumer, path);
            }
            cs::FsStatement::IfC(i) => {
                self.stmt(&i.thenc, path);
                self.stmt(&i.elsec, path);
            }
            cs::FsStatement::PrintI64(p) => self.stmt(&p.next, path),
            cs::FsStatement::Call(_) | cs::FsStatement::Exit(_) => {}
        }
    }
}

pub fn unique_binders(p: &cs::FsProg) -> Option<String> {
    for d in &p.defs {
        let mut u = Uniq { max_id: p.max_id, err: None };
        let mut path = HashSet::new();
        let mut added = vec![];
        for b in &d.context.bindings {
            u.bind(&b.var, &mut path, &mut added);
        }
        u.stmt(&d.body, &mut path);
        if let Some(e) = u.err {
            return Some(format!("definition {}: {e}", d.name.name));
        }
    }
    None
}

/// number of non-variable arguments in the unfocused program (what focusing has to sequence)
fn count_nonvalue_args(p: &cs::Prog) -> usize {
    fn term<C: cs::Chi>(t: &cs::Term<C>, n: &mut usize) {
        match t {
            cs::Term::XVar(_) | cs::Term::Literal(_) => {}
            cs::Term::Op(o) => {
                arg(&o.fst, n);
                arg(&o.snd, n);
            }
            cs::Term::Mu(m) => stmt(&m.statement, n),
            cs::Term::Xtor(x) => args(&x.args, n),
            cs::Term::XCase(x) => {
                for c in &x.clauses {
                    stmt(&c.body, n);
                }
            }
        }
    }
    fn arg<C: cs::Chi>(t: &cs::Term<C>, n: &mut usize) {
        if !matches!(t, cs::Term::XVar(_)) {
            *n += 1;
        }
        term(t, n);
    }
    fn args(a: &cs::Arguments, n: &mut usize) {
        for e in &a.entries {
            match e {
                cs::arguments::Argument::Producer(p) => arg(p, n),
                cs::arguments::Argument::Consumer(c) => arg(c, n),
            }
        }
    }
    fn stmt(s: &cs::Statement, n: &mut usize) {
        match s {
            cs::Statement::Cut(c) => {
                term(&*c.producer, n);
                term(&*c.consumer, n);
            }
            cs::Statement::IfC(i) => {
                arg(&*i.fst, n);
                if let Some(s) = &i.snd {
                    arg(&**s, n);
                }
                stmt(&i.thenc, n);
                stmt(&i.elsec, n);
            }
            cs::Statement::PrintI64(p) => {
                arg(&*p.arg, n);
                stmt(&p.next, n);
            }
            cs::Statement::Call(c) => args(&c.args, n),
            cs::Statement::Exit(e) => arg(&*e.arg, n),
        }
    }
    let mut n = 0;
    for d in &p.defs {
        stmt(&d.body, &mut n);
    }
    n
}

pub fn run_case(ctx: &Ctx, prog: &Program, tuples: &[Vec<i64>]) -> CaseResult {
    run_text_case(ctx, &emit_program(prog), tuples, program_classes(prog))
}

/// two effects (A prints 1, B prints 2) at every ordered pair of integer leaf positions of small
/// argument trees: call / constructor / operator arguments with constructors nested up to depth 3
pub fn effect_matrix() -> Vec<String> {
    // list shapes with integer holes `#`
    let lists = ["C(#, N)", "C(#, C(#, N))", "C(#, C(#, C(#, N)))", "N"];
    let mut templates: Vec<String> = vec![];
    for a in lists {
        templates.push(format!("f2({a}, #)"));
        templates.push(format!("(sumL({a})) + #"));
        templates.push(format!("# - (sumL({a}))"));
        for b in ["C(#, N)", "C(#, C(#, N))"] {
            templates.push(format!("f3({a}, {b}, #)"));
            templates.push(format!("g(MkP({a}, {b}), #)"));
            templates.push(format!("sumP(MkP({b}, {a})) * #"));
        }
    }
    let prelude = "data L { N, C(x: i64, xs: L) }\ndata P { MkP(a: L, b: L) }\ndef ping(x: i64): i64 { print_i64(x); x }\ndef sumL(l: L): i64 { l.case { N => 0, C(x, xs) => x + sumL(xs) } }\ndef sumP(p: P): i64 { p.case { MkP(a, b) => sumL(a) - sumL(b) } }\ndef f2(a: L, b: i64): i64 { sumL(a) + b }\ndef f3(a: L, b: L, c: i64): i64 { (sumL(a) - sumL(b)) + c }\ndef g(p: P, c: i64): i64 { sumP(p) + c }\n";
    let mut out = vec![];
    for t in &templates {
        let holes = t.matches('#').count();
        for i in 0..holes {
            for j in 0..holes {
                if i == j {
                    continue;
                }
                for kind in 0..2 {
                    let (ea, eb) = if kind == 0 { ("(print_i64(1); 1)", "(println_i64(2); 2)") } else { ("ping(1)", "ping(2)") };
                    let mut body = String::new();
                    let mut k = 0;
                    for ch in t.chars() {
                        if ch == '#' {
                            body.push_str(if k == i { ea } else if k == j { eb } else { "7" });
                            k += 1;
                        } else {
                            body.push(ch);
                        }
                    }
                    out.push(format!("{prelude}def main(): i64 {{ {body} }}\n"));
                }
            }
        }
    }
    out
}

pub fn run_text_case(ctx: &Ctx, text: &str, tuples: &[Vec<i64>], mut classes: Vec<String>) -> CaseResult {
    let fuel = ctx.tier.pick(40_000, 120_000);
    let text = text.to_string();
    let fail = |kind: &str, summary: String, details: serde_json::Value| {
        CaseResult::Fail(Failure { kind: kind.into(), summary, details })
    };
    let core = match pipeline::parse(&text).and_then(pipeline::check).and_then(pipeline::to_core) {
        Ok(c) => c,
        Err(StageError::Panic { stage, msg }) => {
            return fail("internal", format!("internal failure in {stage}: {msg}"), json!({"source": text}));
        }
        Err(_) => return CaseResult::Discard("rejected by the front end (decided by C15)".into()),
    };
    let focused = match pipeline::focus(core.clone()) {
        Ok(f) => f,
        Err(e) => return fail("internal", format!("{e}"), json!({"source": text})),
    };
    if let Some(e) = unique_binders(&focused) {
        return fail(
            "binders",
            format!("focused program violates binder uniqueness: {e}"),
            json!({"source": text, "focused": printer::Print::print_to_string(&focused, None)}),
        );
    }
    let src = mach_core::from_prog(&core);
    let tgt = mach_core::from_fs_prog(&focused);
    let nonvalue = count_nonvalue_args(&core);
    let mut any = false;
    let mut nontrivial = false;
    for t in tuples {
        let (o, st) = mach_core::run(&src, t, fuel);
        match &o {
            Outcome::Stuck(s) => {
                // the unfocused Core program itself is stuck: the translation's problem (C02/C12)
                return CaseResult::Discard(format!("source Core program stuck: {}", &s[..s.len().min(30)]));
            }
            Outcome::Done { .. } => {}
            _ => continue,
        }
        any = true;
        let (o2, _) = mach_core::run(&tgt, t, st.steps * 50 + 100_000);
        if let Some(why) = compare(&o, &o2) {
            return fail(
                "mismatch",
                format!("focused program differs from the unfocused one (args {t:?}): {why}"),
                json!({"source": text, "args": t, "expected": outcome_json(&o), "observed": outcome_json(&o2),
                       "core": printer::Print::print_to_string(&core, None),
                       "focused": printer::Print::print_to_string(&focused, None)}),
            );
        }
        if st.reified_contexts >= 2 && st.prints >= 1 {
            nontrivial = true;
        }
        if st.reified_contexts > 0 {
            classes.push("dynamic-focusing".into());
        }
        if st.resumes > st.reified_contexts {
            classes.push("context-resumed-more-than-once".into());
        }
    }
    if !any {
        return CaseResult::Discard("undefined or over budget".into());
    }
    if nonvalue >= 2 {
        classes.push("nonvalue-args>=2".into());
    }
    classes.dedup();
    CaseResult::Pass {
        nontrivial,
        hash: hash_str(&format!("{text}{tuples:?}")),
        classes,
        sample: Some(json!({"source": text, "args": tuples})),
    }
}

pub fn check(ctx: &Ctx) -> i32 {
    let start = Instant::now();
    let mut ev = Evidence::default();
    ev.rule = "Core programs produced by fun2core from generated Fun programs with effects (print, exit, goto, nested calls) in any argument position; oracle: the Core abstract machine with dynamic focusing on the unfocused program vs the same machine on Prog::focus() (output, result, termination), plus the structural invariant that parameters, mu/mu-tilde and clause binders along every path have pairwise distinct non-zero ids <= max_id. Non-trivial: the unfocused run had to evaluate >= 2 non-value arguments through reified contexts and printed at least once; distinct by hash of (source, arguments). Effect-position matrix: two printing effects at every ordered pair of integer leaf positions of small argument trees (call, constructor and operator arguments with constructors nested up to depth 3; inline print blocks and calls of a printing definition). Second domain: well-typed unfocused Core programs generated directly as syntax trees (gen_core: every producer/consumer form in cuts at integer, data and codata types, abstractions/(co)matches/xtors nested in any argument position, constructors with consumer fields, destructors without continuation, xtor names shared between types, binders shadowing names of either chirality, recursion through a fuel parameter); same oracle; the histogram of cut shapes is reported as core-cut:* classes.".into();
    ev.assumptions = vec!["Core machine as in DESIGN.md 3.2".into()];
    let n = ctx.tier.pick(16000, 400000);
    // debugging aid: VERIF_ONLY=gencore skips the first domain
    let n = if std::env::var("VERIF_ONLY").as_deref() == Ok("gencore") { 0 } else { n };
    let run = |b: &[u8]| {
        let c = decode(ctx, b);
        run_case(ctx, &c.prog, &c.tuples)
    };
    let out = drive(&mut ev, ctx.seed, 3, n, 100, 3000, 200, &run);
    let mut report = Report { violations: vec![], infra_errors: vec![] };
    if let Some((bytes, f)) = out.failure {
        let c = decode(ctx, &bytes);
        let (c2, f2) = shrink_fun_case(&c, &f, 3000, &|p, t| run_case(ctx, p, t));
        eprintln!("{}", f2.summary);
        report.violations.push(write_replay_with(ctx, "focus", &bytes, &f2, fun_case_json(&c2)));
    }
    // effect-position matrix (deterministic)
    if report.violations.is_empty() {
        use rayon::prelude::*;
        let texts = effect_matrix();
        let results: Vec<CaseResult> = texts.par_iter().map(|t| run_text_case(ctx, t, &[vec![]], vec!["effect-position matrix".into()])).collect();
        for (t, r) in texts.iter().zip(results) {
            if let CaseResult::Fail(f) = &r {
                if report.violations.is_empty() {
                    eprintln!("{}", f.summary);
                    report.violations.push(write_replay_with(ctx, "matrix", &[], f, json!({"source": t})));
                }
            }
            ev.absorb(&r);
        }
    }
    // second domain: Core programs generated directly
    if report.violations.is_empty() {
        use super::corecase::{self, Mode};
        let n2 = ctx.tier.pick(12000, 400000);
        let run2 = |b: &[u8]| corecase::run(ctx, Mode::Focus, b);
        let out2 = drive(&mut ev, ctx.seed, 103, n2, 60, 1500, 300, &run2);
        if let Some((bytes, f)) = out2.failure {
            eprintln!("{}", f.summary);
            report.violations.push(write_replay(ctx, "gencore", &bytes, &f));
        }
    }
    // coverage-guided campaign over the generator's choice buffers (thorough only)
    crate::fuzzrun::semantic_phase(ctx, &mut ev, &mut report, "focus", 1103, "gencore", 600, &|b| super::corecase::run(ctx, super::corecase::Mode::Focus, b));
    finish(ctx, &ev, &report, start)
}

pub fn replay(ctx: &Ctx, sub: &str, bytes: &[u8], case: &serde_json::Value) -> CaseResult {
    if sub.starts_with("matrix") {
        return run_text_case(ctx, case["source"].as_str().unwrap_or(""), &[vec![]], vec!["effect-position matrix".into()]);
    }
    if sub.starts_with("gencore") {
        return super::corecase::run(ctx, super::corecase::Mode::Focus, bytes);
    }
    let c = fun_case_from_json(case).unwrap_or_else(|| decode(ctx, bytes));
    run_case(ctx, &c.prog, &c.tuples)
}

//! C04 — shrinking focused Core into AxCut preserves semantics (Core machine vs named AxCut
//! machine), lifted definitions receive exactly their free variables.

use super::c02::compare;
use super::common::*;
use crate::fun_ast::{Program, emit_program};
use crate::gen_fun::{GenCfg, gen_program_with_args};
use crate::pipeline::{self, StageError};
use crate::ref_fun::Outcome;
use crate::runner::*;
use crate::{mach_axcut, mach_core, tc_axcut};
use axcut::syntax as ax;
use core_lang::syntax as cs;
use serde_json::json;
use std::collections::BTreeSet;
use std::time::Instant;

pub fn cfg_for(ctx: &Ctx) -> GenCfg {
    GenCfg { size: ctx.tier.pick(36, 60), max_defs: 4, max_main_params: 3, reuse: 60, ..GenCfg::default() }
}

pub fn decode(ctx: &Ctx, bytes: &[u8]) -> FunCase {
    let (prog, tuples, _gs) = gen_program_with_args(bytes, &cfg_for(ctx), 2, false);
    FunCase { prog, tuples }
}

/// classification of every cut of a focused program by the shape core2axcut dispatches on
pub fn cut_shapes(p: &cs::FsProg) -> BTreeSet<String> {
    fn kind<C: cs::Chi>(t: &cs::FsTerm<C>) -> &'static str {
        match t {
            cs::FsTerm::XVar(_) => "var",
            cs::FsTerm::Literal(_) => "lit",
            cs::FsTerm::Op(_) => "op",
            cs::FsTerm::Mu(_) => "mu",
            cs::FsTerm::Xtor(_) => "xtor",
            cs::FsTerm::XCase(_) => "case",
        }
    }
    fn term<C: cs::Chi>(t: &cs::FsTerm<C>, p: &cs::FsProg, out: &mut BTreeSet<String>) {
        match t {
            cs::FsTerm::Mu(m) => stmt(&m.statement, p, out),
            cs::FsTerm::XCase(x) => {
                for c in &x.clauses {
                    stmt(&c.body, p, out);
                }
            }
            _ => {}
        }
    }
    fn stmt(s: &cs::FsStatement, p: &cs::FsProg, out: &mut BTreeSet<String>) {
        match s {
            cs::FsStatement::Cut(c) => {
                let tyk = match &c.ty {
                    cs::Ty::I64 => "int".to_string(),
                    t if t.is_codata(&p.codata_types) => {
                        let n = if let cs::Ty::Decl(n) = t { p.codata_types.iter().find(|d| d.name == *n).map(|d| d.xtors.len()).unwrap_or(0) } else { 0 };
                        format!("codata{}", if n > 1 { "N" } else { "1" })
                    }
                    cs::Ty::Decl(n) => {
                        let k = p.data_types.iter().find(|d| d.name == *n).map(|d| d.xtors.len()).unwrap_or(0);
                        format!("data{}", if k > 1 { "N" } else { "1" })
                    }
                };
                out.insert(format!("cut:{}|{}@{}", kind(&*c.producer), kind(&*c.consumer), tyk));
                term(&*c.producer, p, out);
                term(&*c.consumer, p, out);
            }
            cs::FsStatement::IfC(i) => {
                stmt(&i.thenc, p, out);
                stmt(&i.elsec, p, out);
            }
            cs::FsStatement::PrintI64(pr) => stmt(&pr.next, p, out),
            _ => {}
        }
    }
    let mut out = BTreeSet::new();
    for d in &p.defs {
        stmt(&d.body, p, &mut out);
    }
    out
}

pub fn free_ids(s: &ax::Statement) -> BTreeSet<usize> {
    fn ctx(c: &ax::TypingContext, out: &mut BTreeSet<usize>) {
        for b in &c.bindings {
            out.insert(b.var.id);
        }
    }
    match s {
        ax::Statement::Substitute(sub) => {
            let mut f = free_ids(&sub.next);
            for (new, _) in &sub.rearrange {
                f.remove(&new.var.id);
            }
            for (_, old) in &sub.rearrange {
                f.insert(old.id);
            }
            f
        }
        ax::Statement::Call(c) => {
            let mut f = BTreeSet::new();
            ctx(&c.args, &mut f);
            f
        }
        ax::Statement::Let(l) => {
            let mut f = free_ids(&l.next);
            f.remove(&l.var.id);
            ctx(&l.args, &mut f);
            f
        }
        ax::Statement::Switch(sw) => {
            let mut f = BTreeSet::new();
            for c in &sw.clauses {
                let mut g = free_ids(&c.body);
                for b in &c.context.bindings {
                    g.remove(&b.var.id);
                }
                f.extend(g);
            }
            f.insert(sw.var.id);
            f
        }
        ax::Statement::Create(c) => {
            let mut f = free_ids(&c.next);
            f.remove(&c.var.id);
            for cl in &c.clauses {
                let mut g = free_ids(&cl.body);
                for b in &cl.context.bindings {
                    g.remove(&b.var.id);
                }
                f.extend(g);
            }
            f
        }
        ax::Statement::Invoke(i) => {
            let mut f = BTreeSet::new();
            ctx(&i.args, &mut f);
            f.insert(i.var.id);
            f
        }
        ax::Statement::Literal(l) => {
            let mut f = free_ids(&l.next);
            f.remove(&l.var.id);
            f
        }
        ax::Statement::Op(o) => {
            let mut f = free_ids(&o.next);
            f.remove(&o.var.id);
            f.insert(o.fst.id);
            f.insert(o.snd.id);
            f
        }
        ax::Statement::PrintI64(p) => {
            let mut f = free_ids(&p.next);
            f.insert(p.var.id);
            f
        }
        ax::Statement::IfC(i) => {
            let mut f = free_ids(&i.thenc);
            f.extend(free_ids(&i.elsec));
            f.insert(i.fst.id);
            if let Some(s) = &i.snd {
                f.insert(s.id);
            }
            f
        }
        ax::Statement::Exit(e) => BTreeSet::from([e.var.id]),
    }
}

pub fn lifted_exact(p: &ax::Prog) -> Result<usize, String> {
    let mut n = 0;
    for d in &p.defs {
        let free = free_ids(&d.body);
        let params: BTreeSet<usize> = d.context.bindings.iter().map(|b| b.var.id).collect();
        if !free.is_subset(&params) {
            return Err(format!("definition {}: free variables {:?} are not parameters", d.name.name, free.difference(&params).collect::<Vec<_>>()));
        }
        // A lifted statement receives the free variables of the *Core* statement it was made from;
        // some of them may be dead after the translation (e.g. `<x | mutilde y.s>` with y unused
        // in s), so at the AxCut level only "free variables are parameters" can be demanded.
        if d.name.name.starts_with("lift_") && d.name.id != 0 {
            n += 1;
        }
    }
    Ok(n)
}

pub fn run_case(ctx: &Ctx, prog: &Program, tuples: &[Vec<i64>]) -> CaseResult {
    let fuel = ctx.tier.pick(60_000, 200_000);
    let text = emit_program(prog);
    let fail = |kind: &str, summary: String, details: serde_json::Value| {
        CaseResult::Fail(Failure { kind: kind.into(), summary, details })
    };
    let focused = match pipeline::parse(&text)
        .and_then(pipeline::check)
        .and_then(pipeline::to_core)
        .and_then(pipeline::focus)
    {
        Ok(c) => c,
        Err(StageError::Panic { .. }) => return CaseResult::Discard("earlier stage failed (decided by C12)".into()),
        Err(_) => return CaseResult::Discard("rejected by the front end (decided by C15)".into()),
    };
    let shrunk = match pipeline::shrink(focused.clone()) {
        Ok(s) => s,
        Err(e) => return fail("internal", format!("{e}"), json!({"source": text})),
    };
    let dump = || json!({"source": text, "focused": printer::Print::print_to_string(&focused, None), "axcut": printer::Print::print_to_string(&shrunk, None)});
    let lifted = match lifted_exact(&shrunk) {
        Ok(n) => n,
        Err(e) => return fail("lifted", format!("shrunk program: {e}"), dump()),
    };
    if let Err(e) = tc_axcut::check_binders_unique(&shrunk) {
        return fail("binders", format!("shrunk program: {e}"), dump());
    }
    let shapes = cut_shapes(&focused);
    let src = mach_core::from_fs_prog(&focused);
    let mut any = false;
    let mut nontrivial = false;
    let mut classes: Vec<String> = shapes.iter().cloned().collect();
    if lifted > 0 {
        classes.push("lifted-statement".into());
    }
    let interesting_shape = shapes.iter().any(|s| {
        (s.starts_with("cut:mu|mu@") || s.starts_with("cut:var|var@")) && (s.ends_with("N"))
            || s.starts_with("cut:xtor|case")
            || s.starts_with("cut:case|xtor")
    });
    for t in tuples {
        let (o, st) = mach_core::run(&src, t, fuel);
        match &o {
            Outcome::Stuck(s) => return CaseResult::Discard(format!("focused Core program stuck: {}", &s[..s.len().min(30)])),
            Outcome::Done { .. } => {}
            _ => continue,
        }
        any = true;
        let (o2, _) = mach_axcut::run_named(&shrunk, t, st.steps * 50 + 100_000);
        if let Some(why) = compare(&o, &o2) {
            let mut d = dump();
            d["args"] = json!(t);
            d["expected"] = outcome_json(&o);
            d["observed"] = outcome_json(&o2);
            return fail("mismatch", format!("AxCut program differs from the focused Core program (args {t:?}): {why}"), d);
        }
        if interesting_shape {
            nontrivial = true;
        }
    }
    if !any {
        return CaseResult::Discard("undefined or over budget".into());
    }
    CaseResult::Pass {
        nontrivial,
        hash: hash_str(&format!("{text}{tuples:?}")),
        classes,
        sample: Some(json!({"source": text, "args": tuples})),
    }
}

pub fn check(ctx: &Ctx) -> i32 {
    let start = Instant::now();
    let mut ev = Evidence::default();
    ev.rule = "focused Core programs obtained from generated Fun programs (all constructs, effects anywhere); every cut is classified by (producer shape | consumer shape @ type class) and the histogram is reported; oracle: Core machine on the FsProg vs named AxCut machine on shrink_prog's output (output, result, termination), plus: free variables of every definition are parameters, lifted definitions' parameters are exactly their free variables, binders unique along every path. Non-trivial: the program contains a critical pair or unknown cut at a type with >= 2 xtors or a known cut (constructor against case / cocase against destructor); distinct by hash of (source, arguments). Second domain: focused programs obtained by Prog::focus() from directly generated well-typed Core programs (gen_core, see C03), which contain every cut shape at every kind of type (reported as core-cut:* classes); same oracle.".into();
    ev.assumptions = vec!["Core and AxCut machines as in DESIGN.md 3.2/3.3".into()];
    let n = ctx.tier.pick(16000, 400000);
    // debugging aid: VERIF_ONLY=gencore skips the first domain
    let n = if std::env::var("VERIF_ONLY").as_deref() == Ok("gencore") { 0 } else { n };
    let run = |b: &[u8]| {
        let c = decode(ctx, b);
        run_case(ctx, &c.prog, &c.tuples)
    };
    let out = drive(&mut ev, ctx.seed, 4, n, 100, 3000, 200, &run);
    let mut report = Report { violations: vec![], infra_errors: vec![] };
    if let Some((bytes, f)) = out.failure {
        let c = decode(ctx, &bytes);
        let (c2, f2) = shrink_fun_case(&c, &f, 3000, &|p, t| run_case(ctx, p, t));
        eprintln!("{}", f2.summary);
        report.violations.push(write_replay_with(ctx, "shrink", &bytes, &f2, fun_case_json(&c2)));
    }
    // second domain: Core programs generated directly
    if report.violations.is_empty() {
        use super::corecase::{self, Mode};
        let n2 = ctx.tier.pick(12000, 400000);
        let run2 = |b: &[u8]| corecase::run(ctx, Mode::Shrink, b);
        let out2 = drive(&mut ev, ctx.seed, 104, n2, 60, 1500, 300, &run2);
        if let Some((bytes, f)) = out2.failure {
            eprintln!("{}", f.summary);
            report.violations.push(write_replay(ctx, "gencore", &bytes, &f));
        }
    }
    // coverage-guided campaign over the generator's choice buffers (thorough only)
    crate::fuzzrun::semantic_phase(ctx, &mut ev, &mut report, "shrink", 1104, "gencore", 600, &|b| super::corecase::run(ctx, super::corecase::Mode::Shrink, b));
    finish(ctx, &ev, &report, start)
}

pub fn replay(ctx: &Ctx, sub: &str, bytes: &[u8], case: &serde_json::Value) -> CaseResult {
    if sub.starts_with("gencore") {
        return super::corecase::run(ctx, super::corecase::Mode::Shrink, bytes);
    }
    let c = fun_case_from_json(case).unwrap_or_else(|| decode(ctx, bytes));
    run_case(ctx, &c.prog, &c.tuples)
}

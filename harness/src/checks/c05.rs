//! C05 — linearization preserves semantics (named vs positional AxCut machine) and makes every
//! environment exact (static checker over every path).

use super::c02::compare;
use super::common::*;
use crate::fun_ast::{Program, emit_program};
use crate::gen_fun::{GenCfg, gen_program_with_args};
use crate::pipeline::{self, StageError};
use crate::ref_fun::Outcome;
use crate::runner::*;
use crate::{mach_axcut, tc_axcut};
use serde_json::json;
use std::time::Instant;

pub fn cfg_for(ctx: &Ctx) -> GenCfg {
    GenCfg { size: ctx.tier.pick(36, 60), max_defs: 4, max_main_params: 3, reuse: 60, ..GenCfg::default() }
}

pub fn decode(ctx: &Ctx, bytes: &[u8]) -> FunCase {
    let (prog, tuples, _gs) = gen_program_with_args(bytes, &cfg_for(ctx), 2, false);
    FunCase { prog, tuples }
}

pub fn run_case(ctx: &Ctx, prog: &Program, tuples: &[Vec<i64>]) -> CaseResult {
    let fuel = ctx.tier.pick(100_000, 300_000);
    let text = emit_program(prog);
    let fail = |kind: &str, summary: String, details: serde_json::Value| {
        CaseResult::Fail(Failure { kind: kind.into(), summary, details })
    };
    let shrunk = match pipeline::parse(&text)
        .and_then(pipeline::check)
        .and_then(pipeline::to_core)
        .and_then(pipeline::focus)
        .and_then(pipeline::shrink)
    {
        Ok(c) => c,
        Err(StageError::Panic { .. }) => return CaseResult::Discard("earlier stage failed (decided by C12)".into()),
        Err(_) => return CaseResult::Discard("rejected by the front end (decided by C15)".into()),
    };
    if tc_axcut::check_named(&shrunk).is_err() {
        return CaseResult::Discard("input of linearization is not well-typed (decided by C12)".into());
    }
    let linear = match pipeline::linearize(shrunk.clone()) {
        Ok(s) => s,
        Err(e) => return fail("internal", format!("{e}"), json!({"source": text})),
    };
    let dump = || json!({"source": text, "axcut": printer::Print::print_to_string(&shrunk, None), "linearized": printer::Print::print_to_string(&linear, None)});
    if let Err(e) = tc_axcut::check_linear(&linear) {
        return fail("linear-typing", format!("linearized program is not well-typed under the ordered linear discipline: {e}"), dump());
    }
    let mut any = false;
    let mut nontrivial = false;
    let mut classes = vec![];
    for t in tuples {
        let (o, st) = mach_axcut::run_named(&shrunk, t, fuel);
        match &o {
            Outcome::Stuck(s) => return CaseResult::Discard(format!("non-linear program stuck: {}", &s[..s.len().min(30)])),
            Outcome::Done { .. } => {}
            _ => continue,
        }
        any = true;
        let (o2, st2, _) = mach_axcut::run_positional(&linear, t, st.steps * 20 + 100_000);
        if let Some(why) = compare(&o, &o2) {
            let mut d = dump();
            d["args"] = json!(t);
            d["expected"] = outcome_json(&o);
            d["observed"] = outcome_json(&o2);
            return fail("mismatch", format!("linearized program differs from the non-linear one (args {t:?}): {why}"), d);
        }
        if st2.dup_objects + st2.drop_objects > 0 {
            nontrivial = true;
        }
        if st2.dup_objects > 0 {
            classes.push("substitute-duplicates-object".to_string());
        }
        if st2.drop_objects > 0 {
            classes.push("substitute-drops-object".to_string());
        }
        if st2.max_env > 6 {
            classes.push("env>6".to_string());
        }
        if st2.max_env > 13 {
            classes.push("env>13".to_string());
        }
        if st2.big_objects > 0 {
            classes.push("object>3fields".to_string());
        }
    }
    if !any {
        return CaseResult::Discard("undefined or over budget".into());
    }
    classes.sort();
    classes.dedup();
    CaseResult::Pass {
        nontrivial,
        hash: hash_str(&format!("{text}{tuples:?}")),
        classes,
        sample: Some(json!({"source": text, "args": tuples})),
    }
}

/// second domain: directly generated non-linear programs
pub fn run_direct(ctx: &Ctx, bytes: &[u8]) -> CaseResult {
    let (prog, tuples) = crate::gen_axcut::gen_nonlinear(bytes, crate::gen_axcut::NlCfg { size: ctx.tier.pick(30, 50), max_main_params: 4, max_env: 20 }, 2);
    run_axcut(ctx, prog, tuples, "direct generator")
}

/// third domain: AxCut programs shrunk from directly generated Core programs (gen_core)
pub fn run_from_core(ctx: &Ctx, bytes: &[u8]) -> CaseResult {
    let cfg = crate::gen_core::CoreCfg { size: ctx.tier.pick(28, 44), max_defs: 3, max_main_params: 3, reuse: 60, allow_print: true };
    let (core, tuples, _) = crate::gen_core::gen_core(bytes, &cfg);
    match pipeline::focus(core).and_then(pipeline::shrink) {
        Ok(prog) => run_axcut(ctx, prog, tuples, "shrunk from a generated Core program"),
        Err(_) => CaseResult::Discard("an earlier stage failed on the generated Core program (decided by C12)".into()),
    }
}

fn run_axcut(ctx: &Ctx, prog: axcut::syntax::Prog, tuples: Vec<Vec<i64>>, source: &str) -> CaseResult {
    let fuel = ctx.tier.pick(100_000, 300_000);
    let fail = |kind: &str, summary: String, details: serde_json::Value| CaseResult::Fail(Failure { kind: kind.into(), summary, details });
    if let Err(e) = tc_axcut::check_named(&prog).and_then(|_| tc_axcut::check_binders_unique(&prog)) {
        return fail("harness", format!("harness error: generated non-linear program is ill-formed: {e}"), json!({"axcut": printer::Print::print_to_string(&prog, None)}));
    }
    let linear = match pipeline::linearize(prog.clone()) {
        Ok(l) => l,
        Err(e) => return fail("internal", format!("{e}"), json!({"axcut": printer::Print::print_to_string(&prog, None)})),
    };
    let dump = || json!({"axcut": printer::Print::print_to_string(&prog, None), "linearized": printer::Print::print_to_string(&linear, None)});
    if let Err(e) = tc_axcut::check_linear(&linear) {
        return fail("linear-typing", format!("linearized program is not well-typed under the ordered linear discipline: {e}"), dump());
    }
    let mut any = false;
    let mut nontrivial = false;
    let mut classes = vec![source.to_string()];
    for t in &tuples {
        let (o, st) = mach_axcut::run_named(&prog, t, fuel);
        match &o {
            Outcome::Stuck(s) => return fail("harness", format!("harness error: generated program stuck: {s}"), dump()),
            Outcome::Done { .. } => {}
            _ => continue,
        }
        any = true;
        let (o2, st2, _) = mach_axcut::run_positional(&linear, t, st.steps * 20 + 100_000);
        if let Some(why) = compare(&o, &o2) {
            let mut d = dump();
            d["args"] = json!(t);
            d["expected"] = outcome_json(&o);
            d["observed"] = outcome_json(&o2);
            return fail("mismatch", format!("linearized program differs from the non-linear one (args {t:?}): {why}"), d);
        }
        if st2.dup_objects + st2.drop_objects > 0 {
            nontrivial = true;
        }
        if st2.dup_objects > 0 {
            classes.push("substitute-duplicates-object".to_string());
        }
        if st2.drop_objects > 0 {
            classes.push("substitute-drops-object".to_string());
        }
    }
    if !any {
        return CaseResult::Discard("undefined or over budget".into());
    }
    classes.sort();
    classes.dedup();
    CaseResult::Pass { nontrivial, hash: hash_str(&printer::Print::print_to_string(&prog, None)), classes, sample: None }
}

pub fn check(ctx: &Ctx) -> i32 {
    let start = Instant::now();
    let mut ev = Evidence::default();
    ev.rule = "non-linear AxCut programs produced by the pipeline from generated Fun programs; oracles: (1) named AxCut machine on the input vs positional/linear machine on Prog::linearize() (output, result, termination); (2) a static checker over every path of the linearized program implementing what the code generators read off positions (call: callee's parameters; invoke: arguments then closure; let: rest then arguments; switch: rest then scrutinee, clauses in declaration order; create: rest then captured environment; operands present; kinds and types agree; only substitute duplicates/drops). Non-trivial: the run executed a substitute that duplicates or drops an object variable; distinct by hash of (source, arguments). Second domain: non-linear AxCut programs generated directly (gen_axcut). Third domain: AxCut programs shrunk from directly generated Core programs (gen_core), e.g. closures in constructor fields and destructors with several continuations.".into();
    ev.assumptions = vec!["AxCut machines as in DESIGN.md 3.3".into()];
    let n = ctx.tier.pick(16000, 300000);
    let run = |b: &[u8]| {
        let c = decode(ctx, b);
        run_case(ctx, &c.prog, &c.tuples)
    };
    let out = drive(&mut ev, ctx.seed, 5, n, 100, 3000, 200, &run);
    let mut report = Report { violations: vec![], infra_errors: vec![] };
    if let Some((bytes, f)) = out.failure {
        let c = decode(ctx, &bytes);
        let (c2, f2) = shrink_fun_case(&c, &f, 3000, &|p, t| run_case(ctx, p, t));
        eprintln!("{}", f2.summary);
        report.violations.push(write_replay_with(ctx, "linearize", &bytes, &f2, fun_case_json(&c2)));
    }
    if report.violations.is_empty() {
        let n2 = ctx.tier.pick(10000, 300000);
        let out2 = drive(&mut ev, ctx.seed, 105, n2, 60, 2500, 400, &|b| run_direct(ctx, b));
        if let Some((bytes, f)) = out2.failure {
            eprintln!("{}", f.summary);
            report.violations.push(write_replay(ctx, "direct", &bytes, &f));
        }
    }
    if report.violations.is_empty() {
        let n3 = ctx.tier.pick(4000, 300000);
        let out3 = drive(&mut ev, ctx.seed, 205, n3, 60, 1500, 300, &|b| run_from_core(ctx, b));
        if let Some((bytes, f)) = out3.failure {
            eprintln!("{}", f.summary);
            report.violations.push(write_replay(ctx, "fromcore", &bytes, &f));
        }
    }
    crate::fuzzrun::semantic_phase(ctx, &mut ev, &mut report, "nonlinear", 1105, "direct", 450, &|b| run_direct(ctx, b));
    crate::fuzzrun::semantic_phase(ctx, &mut ev, &mut report, "linearize", 1205, "fromcore", 450, &|b| run_from_core(ctx, b));
    finish(ctx, &ev, &report, start)
}

pub fn replay(ctx: &Ctx, sub: &str, bytes: &[u8], case: &serde_json::Value) -> CaseResult {
    if sub.starts_with("direct") {
        return run_direct(ctx, bytes);
    }
    if sub.starts_with("fromcore") {
        return run_from_core(ctx, bytes);
    }
    let c = fun_case_from_json(case).unwrap_or_else(|| decode(ctx, bytes));
    run_case(ctx, &c.prog, &c.tuples)
}

//! C06 — x86-64 code generation preserves AxCut semantics.

use super::backend::*;
use super::common::*;
use crate::pipeline::Arch;
use crate::runner::*;
use std::time::Instant;

pub fn arch_check(ctx: &Ctx, arch: Arch, stream: u64, rule: &str) -> i32 {
    let start = Instant::now();
    let mut ev = Evidence::default();
    ev.rule = rule.to_string();
    ev.assumptions = vec![
        "the emulator's reading of the printed instruction subset (DESIGN.md 3.4, Appendix A)".into(),
        "positional AxCut machine (DESIGN.md 3.3)".into(),
    ];
    let n = ctx.tier.pick(2000, 40000);
    let run = |b: &[u8]| {
        let c = decode(ctx, arch, b);
        run_fun_case(ctx, arch, &c.prog, &c.tuples, false).0
    };
    let out = drive(&mut ev, ctx.seed, stream, n, 100, 3000, 120, &run);
    let mut report = Report { violations: vec![], infra_errors: vec![] };
    if let Some((bytes, f)) = out.failure {
        let c = decode(ctx, arch, &bytes);
        let (c2, f2) = shrink_fun_case(&c, &f, 2500, &|p, t| run_fun_case(ctx, arch, p, t, false).0);
        eprintln!("{}", f2.summary);
        report.violations.push(write_replay_with(ctx, "pipeline", &bytes, &f2, fun_case_json(&c2)));
    }
    // second domain: directly generated linear programs (stateful generator)
    if report.violations.is_empty() {
        let lcfg = lin_cfg_for(ctx, arch);
        let n2 = ctx.tier.pick(2500, 50000);
        let run2 = |b: &[u8]| run_lin_case(ctx, arch, &decode_lin(&lcfg, b), false).0;
        let out2 = drive(&mut ev, ctx.seed, stream + 100, n2, 60, 2500, 400, &run2);
        if let Some((bytes, f)) = out2.failure {
            eprintln!("{}", f.summary);
            report.violations.push(write_replay(ctx, "linear", &bytes, &f));
        }
    }
    let infra: u64 = ev.discards.iter().filter(|(k, _)| k.starts_with("infra")).map(|(_, v)| *v).sum();
    if infra > 0 {
        report.infra_errors.push(format!("{infra} cases hit an infrastructure problem (see evidence)"));
    }
    finish(ctx, &ev, &report, start)
}

pub fn check(ctx: &Ctx) -> i32 {
    arch_check(ctx, Arch::X86, 6, "linearized AxCut programs from the pipeline (generated Fun programs, environments beyond the register file, objects with up to 8 fields) x 2 argument tuples; oracle: sequence of print calls (newline flag, value) and returned value of the emulated x86-64 text (parsed from the printed assembly, poison tracking for undefined values, code addresses with 5-byte table entries) vs the positional AxCut machine. Non-trivial: the run has > 6 live variables (spills), a multi-block object or a shared object; distinct by hash of (source, arguments).")
}

pub fn replay(ctx: &Ctx, arch: Arch, sub: &str, bytes: &[u8], case: &serde_json::Value) -> CaseResult {
    if sub.starts_with("linear") {
        return run_lin_case(ctx, arch, &decode_lin(&lin_cfg_for(ctx, arch), bytes), false).0;
    }
    let c = fun_case_from_json(case).unwrap_or_else(|| decode(ctx, arch, bytes));
    run_fun_case(ctx, arch, &c.prog, &c.tuples, false).0
}

//! C06 — x86-64 code generation preserves AxCut semantics.

use super::backend::*;
use super::common::*;
use crate::pipeline::Arch;
use crate::runner::*;
use std::time::Instant;

pub fn arch_check(ctx: &Ctx, arch: Arch, stream: u64, rule: &str) -> i32 {
    let start = Instant::now();
    let mut ev = Evidence::default();
    ev.rule = rule.to_string();
    ev.assumptions = vec![
        "the emulator's reading of the printed instruction subset (DESIGN.md 3.4, Appendix A)".into(),
        "positional AxCut machine (DESIGN.md 3.3)".into(),
    ];
    // debugging aid: VERIF_ONLY=matrix runs only the placement matrix
    let only_matrix = std::env::var("VERIF_ONLY").as_deref() == Ok("matrix");
    let n = if only_matrix { 0 } else { ctx.tier.pick(2000, 120000) };
    let run = |b: &[u8]| {
        let c = decode(ctx, arch, b);
        run_fun_case(ctx, arch, &c.prog, &c.tuples, false).0
    };
    let out = drive(&mut ev, ctx.seed, stream, n, 100, 3000, 120, &run);
    let mut report = Report { violations: vec![], infra_errors: vec![] };
    if let Some((bytes, f)) = out.failure {
        let c = decode(ctx, arch, &bytes);
        let (c2, f2) = shrink_fun_case(&c, &f, 2500, &|p, t| run_fun_case(ctx, arch, p, t, false).0);
        eprintln!("{}", f2.summary);
        report.violations.push(write_replay_with(ctx, "pipeline", &bytes, &f2, fun_case_json(&c2)));
    }
    // second domain: directly generated linear programs (stateful generator)
    if report.violations.is_empty() {
        let lcfg = lin_cfg_for(ctx, arch);
        let n2 = if only_matrix { 0 } else { ctx.tier.pick(2500, 200000) };
        let run2 = |b: &[u8]| run_lin_case(ctx, arch, &decode_lin(&lcfg, b), false).0;
        let out2 = drive(&mut ev, ctx.seed, stream + 100, n2, 60, 2500, 400, &run2);
        if let Some((bytes, f)) = out2.failure {
            eprintln!("{}", f.summary);
            report.violations.push(write_replay(ctx, "linear", &bytes, &f));
        }
    }
    // third domain: directly generated Core programs taken through focusing, shrinking and
    // linearization (AxCut shapes the Fun front end does not produce)
    if report.violations.is_empty() {
        let n4 = if only_matrix { 0 } else { ctx.tier.pick(1500, 100000) };
        let run4 = |b: &[u8]| run_core_lin_case(ctx, arch, b, false).0;
        let out4 = drive(&mut ev, ctx.seed, stream + 300, n4, 60, 1500, 300, &run4);
        if let Some((bytes, f)) = out4.failure {
            eprintln!("{}", f.summary);
            report.violations.push(write_replay(ctx, "core-pipeline", &bytes, &f));
        }
    }
    // cross-check of the emulator itself (x86-64 only): a sample of the directly generated linear
    // programs is also assembled, linked with the repository's driver and run natively; the native
    // output/status must agree with the positional AxCut machine as well
    if report.violations.is_empty() && arch == Arch::X86 {
        let tc = crate::native::Toolchain::new(ctx.scratch.clone());
        let lcfg = lin_cfg_for(ctx, arch);
        let n3 = if only_matrix { 0 } else { ctx.tier.pick(250, 5000) };
        let run3 = |b: &[u8]| native_cross_check(ctx, &tc, &decode_lin(&lcfg, b));
        let out3 = drive(&mut ev, ctx.seed, stream + 200, n3, 60, 2500, 100, &run3);
        if let Some((bytes, f)) = out3.failure {
            eprintln!("{}", f.summary);
            report.violations.push(write_replay(ctx, "native-linear", &bytes, &f));
        }
    }
    // exhaustive operator/comparison placement matrix
    super::opmatrix::run(ctx, arch, &mut ev, &mut report);
    // coverage-guided campaigns over the generators' choice buffers (thorough only)
    {
        let (m1, m2) = match arch {
            Arch::X86 => ("lin-x86", "core-x86"),
            Arch::A64 => ("lin-a64", "core-a64"),
            Arch::Rv => ("lin-rv", "core-rv"),
        };
        let lcfg = lin_cfg_for(ctx, arch);
        crate::fuzzrun::semantic_phase(ctx, &mut ev, &mut report, m1, stream + 1000, "linear", 450, &|b| run_lin_case(ctx, arch, &decode_lin(&lcfg, b), false).0);
        crate::fuzzrun::semantic_phase(ctx, &mut ev, &mut report, m2, stream + 1100, "core-pipeline", 450, &|b| run_core_lin_case(ctx, arch, b, false).0);
    }
    let infra: u64 = ev.discards.iter().filter(|(k, _)| k.starts_with("infra")).map(|(_, v)| *v).sum();
    if infra > 0 {
        report.infra_errors.push(format!("{infra} cases hit an infrastructure problem (see evidence)"));
    }
    finish(ctx, &ev, &report, start)
}

static NTAG: std::sync::atomic::AtomicU64 = std::sync::atomic::AtomicU64::new(0);

pub fn native_cross_check(ctx: &Ctx, tc: &crate::native::Toolchain, c: &LinCase) -> CaseResult {
    use crate::ref_fun::Outcome;
    let asm = match codegen_linear(&c.prog, Arch::X86) {
        Ok(a) => a,
        Err(r) => return r,
    };
    let nargs = c.prog.defs[0].context.bindings.len();
    let tag = format!("n{}", NTAG.fetch_add(1, std::sync::atomic::Ordering::Relaxed));
    let exe = match tc.build_exe(&asm, nargs, &tag) {
        Ok(e) => e,
        Err(crate::native::NativeError::Assemble(m)) => {
            return CaseResult::Fail(Failure { kind: "assembler".into(), summary: format!("assembler rejected the emitted file: {m}"), details: serde_json::json!({"linearized": printer::Print::print_to_string(&c.prog, None)}) });
        }
        Err(crate::native::NativeError::Infra(m)) => return CaseResult::Discard(format!("infra: {m}")),
    };
    let mut ok = 0;
    let mut res = None;
    for t in &c.tuples {
        let (o, _, _) = crate::mach_axcut::run_positional(&c.prog, t, ctx.tier.pick(150_000, 400_000));
        let Outcome::Done { out, result } = o else { continue };
        let args: Vec<String> = t.iter().map(|a| a.to_string()).collect();
        let Ok(r) = crate::native::run_with_timeout(&exe, &args, std::time::Duration::from_secs(10)) else { continue };
        if r.timed_out {
            res = Some(CaseResult::Discard("infra: watchdog (inconclusive)".into()));
            break;
        }
        if r.stdout != out || r.code != Some((result & 0xff) as i32) {
            res = Some(CaseResult::Fail(Failure {
                kind: "native".into(),
                summary: format!("native execution of the x86-64 code disagrees with the AxCut machine (args {t:?}): status {:?}{} expected {}", r.code, r.signal.map(|s| format!(" signal {s}")).unwrap_or_default(), result & 0xff),
                details: serde_json::json!({"linearized": printer::Print::print_to_string(&c.prog, None), "args": t,
                    "expected_stdout": String::from_utf8_lossy(&out), "observed_stdout": String::from_utf8_lossy(&r.stdout)}),
            }));
            break;
        }
        ok += 1;
    }
    let _ = std::fs::remove_file(&exe);
    if let Some(r) = res {
        return r;
    }
    if ok == 0 {
        return CaseResult::Discard("undefined or over budget".into());
    }
    CaseResult::Pass { nontrivial: true, hash: hash_str(&asm), classes: vec!["native cross-check of the emulator".into()], sample: None }
}

pub fn check(ctx: &Ctx) -> i32 {
    arch_check(ctx, Arch::X86, 6, "linearized AxCut programs from the pipeline (generated Fun programs, environments beyond the register file, objects with up to 8 fields) x 2 argument tuples; oracle: sequence of print calls (newline flag, value) and returned value of the emulated x86-64 text (parsed from the printed assembly, poison tracking for undefined values, code addresses with 5-byte table entries) vs the positional AxCut machine. Non-trivial: the run has > 6 live variables (spills), a multi-block object or a shared object; distinct by hash of (source, arguments).")
}

pub fn replay(ctx: &Ctx, arch: Arch, sub: &str, bytes: &[u8], case: &serde_json::Value) -> CaseResult {
    if sub.starts_with("native-linear") {
        let tc = crate::native::Toolchain::new(ctx.scratch.clone());
        return native_cross_check(ctx, &tc, &decode_lin(&lin_cfg_for(ctx, arch), bytes));
    }
    if sub.starts_with("linear") {
        return run_lin_case(ctx, arch, &decode_lin(&lin_cfg_for(ctx, arch), bytes), false).0;
    }
    if sub.starts_with("core-pipeline") {
        return run_core_lin_case(ctx, arch, bytes, false).0;
    }
    if sub.starts_with("matrix") {
        return super::opmatrix::replay(ctx, arch, case);
    }
    let c = fun_case_from_json(case).unwrap_or_else(|| decode(ctx, arch, bytes));
    run_fun_case(ctx, arch, &c.prog, &c.tuples, false).0
}

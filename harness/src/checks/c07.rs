//! C07 — AArch64 code generation preserves AxCut semantics.
use super::c06::arch_check;
use crate::pipeline::Arch;
use crate::runner::Ctx;

pub fn check(ctx: &Ctx) -> i32 {
    arch_check(ctx, Arch::A64, 7, "linearized AxCut programs from the pipeline (generated Fun programs, environments beyond the register file, objects with up to 8 fields, 64-bit literals) x 2 argument tuples; oracle: sequence of print calls and returned value of the emulated AArch64 text (parsed from the printed assembly, poison tracking, 4-byte code addresses, SP alignment at every stack access) vs the positional AxCut machine. Non-trivial: the run has > 6 live variables, a multi-block object or a shared object; distinct by hash of (source, arguments).")
}

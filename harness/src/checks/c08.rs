//! C08 — RISC-V code generation preserves AxCut semantics and agrees with the other backends.
use super::backend::*;
use super::common::*;
use crate::fun_ast::Program;
use crate::pipeline::Arch;
use crate::runner::*;
use serde_json::json;
use std::time::Instant;

pub fn run_case(ctx: &Ctx, prog: &Program, tuples: &[Vec<i64>]) -> CaseResult {
    let (r, runs) = run_fun_case(ctx, Arch::Rv, prog, tuples, false);
    let CaseResult::Pass { nontrivial, hash, mut classes, sample } = r else { return r };
    // agreement with the other two backends on the same program
    for arch in [Arch::X86, Arch::A64] {
        let (r2, runs2) = run_fun_case(ctx, arch, prog, tuples, false);
        match r2 {
            CaseResult::Fail(mut f) => {
                f.summary = format!("backends disagree: rv64 matches the AxCut machine but {}", f.summary);
                f.kind = "disagree".into();
                return CaseResult::Fail(f);
            }
            CaseResult::Pass { .. } => {
                for (a, b) in runs.iter().zip(runs2.iter()) {
                    if a.result != b.result {
                        return CaseResult::Fail(Failure {
                            kind: "disagree".into(),
                            summary: format!("rv64 returns {} but {} returns {}", a.result, arch.name(), b.result),
                            details: json!({"source": crate::fun_ast::emit_program(prog)}),
                        });
                    }
                }
                classes.push(format!("cross-checked with {}", arch.name()));
            }
            CaseResult::Discard(_) => {}
        }
    }
    CaseResult::Pass { nontrivial, hash, classes, sample }
}

pub fn check(ctx: &Ctx) -> i32 {
    let start = Instant::now();
    let mut ev = Evidence::default();
    ev.rule = "print-free linearized AxCut programs from the pipeline (generated Fun programs; programs needing more than 14 live variables hit the documented capacity assertion and are discarded) x 2 argument tuples; oracle: value of X10 at `cleanup:` of the emulated RISC-V pseudo-assembly (64-bit loads/stores, X2/X3 = heap/free pointers, parameters in the second temporaries) vs the positional AxCut machine, plus agreement with the x86-64 and AArch64 emulations of the same program. Non-trivial: the run has a multi-block object, a shared object or > 6 live variables; distinct by hash of (source, arguments).".into();
    ev.assumptions = vec!["emulator's reading of the backend's pseudo-syntax (DESIGN.md Appendix A)".into()];
    let n = ctx.tier.pick(2000, 100000);
    let arch = Arch::Rv;
    let run = |b: &[u8]| {
        let c = decode(ctx, arch, b);
        run_case(ctx, &c.prog, &c.tuples)
    };
    let out = drive(&mut ev, ctx.seed, 8, n, 100, 3000, 120, &run);
    let mut report = Report { violations: vec![], infra_errors: vec![] };
    if let Some((bytes, f)) = out.failure {
        let c = decode(ctx, arch, &bytes);
        let (c2, f2) = shrink_fun_case(&c, &f, 2500, &|p, t| run_case(ctx, p, t));
        eprintln!("{}", f2.summary);
        report.violations.push(write_replay_with(ctx, "pipeline", &bytes, &f2, fun_case_json(&c2)));
    }
    if report.violations.is_empty() {
        let lcfg = lin_cfg_for(ctx, arch);
        let n2 = ctx.tier.pick(2500, 150000);
        let run2 = |b: &[u8]| {
            let c = decode_lin(&lcfg, b);
            let (r, runs) = run_lin_case(ctx, Arch::Rv, &c, false);
            let CaseResult::Pass { nontrivial, hash, mut classes, sample } = r else { return r };
            for other in [Arch::X86, Arch::A64] {
                let (r2, runs2) = run_lin_case(ctx, other, &c, false);
                match r2 {
                    CaseResult::Fail(mut f) => {
                        f.summary = format!("backends disagree: rv64 matches the AxCut machine but {}", f.summary);
                        f.kind = "disagree".into();
                        return CaseResult::Fail(f);
                    }
                    CaseResult::Pass { .. } => {
                        if runs.iter().zip(runs2.iter()).any(|(a, b)| a.result != b.result) {
                            return CaseResult::Fail(Failure { kind: "disagree".into(), summary: format!("rv64 and {} return different results", other.name()), details: json!({}) });
                        }
                        classes.push(format!("cross-checked with {}", other.name()));
                    }
                    CaseResult::Discard(_) => {}
                }
            }
            CaseResult::Pass { nontrivial, hash, classes, sample }
        };
        let out2 = drive(&mut ev, ctx.seed, 108, n2, 60, 2500, 400, &run2);
        if let Some((bytes, f)) = out2.failure {
            eprintln!("{}", f.summary);
            report.violations.push(write_replay(ctx, "linear", &bytes, &f));
        }
    }
    // third domain: directly generated (print-free) Core programs through focusing, shrinking and
    // linearization
    if report.violations.is_empty() {
        let n3 = ctx.tier.pick(1500, 100000);
        let run3 = |b: &[u8]| run_core_lin_case(ctx, Arch::Rv, b, false).0;
        let out3 = drive(&mut ev, ctx.seed, 208, n3, 60, 1500, 300, &run3);
        if let Some((bytes, f)) = out3.failure {
            eprintln!("{}", f.summary);
            report.violations.push(write_replay(ctx, "core-pipeline", &bytes, &f));
        }
    }
    super::opmatrix::run(ctx, Arch::Rv, &mut ev, &mut report);
    {
        let lcfg = lin_cfg_for(ctx, Arch::Rv);
        crate::fuzzrun::semantic_phase(ctx, &mut ev, &mut report, "lin-rv", 1008, "linear", 450, &|b| run_lin_case(ctx, Arch::Rv, &decode_lin(&lcfg, b), false).0);
        crate::fuzzrun::semantic_phase(ctx, &mut ev, &mut report, "core-rv", 1108, "core-pipeline", 450, &|b| run_core_lin_case(ctx, Arch::Rv, b, false).0);
    }
    let infra: u64 = ev.discards.iter().filter(|(k, _)| k.starts_with("infra")).map(|(_, v)| *v).sum();
    if infra > 0 {
        report.infra_errors.push(format!("{infra} cases hit an infrastructure problem (see evidence)"));
    }
    finish(ctx, &ev, &report, start)
}

pub fn replay(ctx: &Ctx, sub: &str, bytes: &[u8], case: &serde_json::Value) -> CaseResult {
    if sub.starts_with("linear") {
        return run_lin_case(ctx, Arch::Rv, &decode_lin(&lin_cfg_for(ctx, Arch::Rv), bytes), false).0;
    }
    if sub.starts_with("core-pipeline") {
        return run_core_lin_case(ctx, Arch::Rv, bytes, false).0;
    }
    if sub.starts_with("matrix") {
        return super::opmatrix::replay(ctx, Arch::Rv, case);
    }
    let c = fun_case_from_json(case).unwrap_or_else(|| decode(ctx, Arch::Rv, bytes));
    run_case(ctx, &c.prog, &c.tuples)
}

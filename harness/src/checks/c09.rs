//! C09 — heap consistency at every statement boundary of every execution, on all backends.
//! C10 (oracle 1) and C13 reuse the same driver with different post-conditions/configurations.

use super::backend::*;
use super::common::*;
use crate::gen_lin::LinCfg;
use crate::heapcheck;
use crate::pipeline::Arch;
use crate::runner::*;
use serde_json::json;
use std::time::Instant;

pub struct Spec<'a> {
    pub rule: &'a str,
    pub archs: &'a [Arch],
    pub n_fun: usize,
    pub n_lin: usize,
    pub with_audit: bool,
    pub lin_cfg: &'a (dyn Fn(&Ctx, Arch) -> LinCfg + Sync),
    /// extra post-condition on each successful run
    pub post: &'a (dyn Fn(Arch, &BackendRun) -> Option<String> + Sync),
    /// non-triviality of a run
    pub nontrivial: &'a (dyn Fn(&BackendRun) -> bool + Sync),
    /// additional phase run after the generated executions
    pub extra: Option<&'a (dyn Fn(&Ctx, &mut Evidence, &mut Report) + Sync)>,
}

fn finish_case(arch: Arch, spec: &Spec, r: CaseResult, runs: &[BackendRun], what: serde_json::Value) -> CaseResult {
    let CaseResult::Pass { hash, mut classes, sample, .. } = r else { return r };
    let mut nontrivial = false;
    for run in runs {
        if let Some(msg) = (spec.post)(arch, run) {
            return CaseResult::Fail(Failure { kind: "post".into(), summary: format!("{}: {msg}", arch.name()), details: what });
        }
        if (spec.nontrivial)(run) {
            nontrivial = true;
        }
    }
    classes.push(format!("arch:{}", arch.name()));
    CaseResult::Pass { nontrivial, hash: hash ^ hash_str(arch.name()), classes, sample }
}

pub fn run(ctx: &Ctx, spec: &Spec) -> i32 {
    let start = Instant::now();
    let mut ev = Evidence::default();
    ev.rule = spec.rule.to_string();
    ev.assumptions = vec![
        "heap layout as read from axcut2backend/src/memory.rs and the backends' memory.rs (DESIGN.md 3.5)".into(),
        "emulators (DESIGN.md 3.4); marker comments from the verif_hooks feature occupy no address".into(),
    ];
    let mut report = Report { violations: vec![], infra_errors: vec![] };
    for (ai, arch) in spec.archs.iter().copied().enumerate() {
        if !report.violations.is_empty() {
            break;
        }
        let run_fun = |b: &[u8]| {
            let c = decode(ctx, arch, b);
            let (r, runs) = run_fun_case(ctx, arch, &c.prog, &c.tuples, spec.with_audit);
            finish_case(arch, spec, r, &runs, json!({"source": crate::fun_ast::emit_program(&c.prog), "args": c.tuples}))
        };
        let out = drive(&mut ev, ctx.seed, 900 + ai as u64, spec.n_fun, 100, 3000, 100, &run_fun);
        if let Some((bytes, f)) = out.failure {
            let c = decode(ctx, arch, &bytes);
            let (c2, f2) = shrink_fun_case(&c, &f, 1500, &|p, t| {
                let (r, runs) = run_fun_case(ctx, arch, p, t, spec.with_audit);
                finish_case(arch, spec, r, &runs, json!({"source": crate::fun_ast::emit_program(p), "args": t}))
            });
            eprintln!("{}", f2.summary);
            report.violations.push(write_replay_with(ctx, &format!("pipeline-{}", arch.name()), &bytes, &f2, fun_case_json(&c2)));
            break;
        }
        let lcfg = (spec.lin_cfg)(ctx, arch);
        let run_lin = |b: &[u8]| {
            let c = decode_lin(&lcfg, b);
            let (r, runs) = run_lin_case(ctx, arch, &c, spec.with_audit);
            finish_case(arch, spec, r, &runs, json!({"linearized": printer::Print::print_to_string(&c.prog, None), "args": c.tuples}))
        };
        let out2 = drive(&mut ev, ctx.seed, 950 + ai as u64, spec.n_lin, 60, 2500, 300, &run_lin);
        if let Some((bytes, f)) = out2.failure {
            eprintln!("{}", f.summary);
            report.violations.push(write_replay(ctx, &format!("linear-{}", arch.name()), &bytes, &f));
            break;
        }
        // third domain: directly generated Core programs through focusing, shrinking, linearization
        let run_core = |b: &[u8]| {
            let (r, runs) = run_core_lin_case(ctx, arch, b, spec.with_audit);
            finish_case(arch, spec, r, &runs, json!({"domain": "generated Core program"}))
        };
        let out3 = drive(&mut ev, ctx.seed, 980 + ai as u64, spec.n_fun, 60, 1500, 300, &run_core);
        if let Some((bytes, f)) = out3.failure {
            eprintln!("{}", f.summary);
            report.violations.push(write_replay(ctx, &format!("corepipe-{}", arch.name()), &bytes, &f));
        }
    }
    // coverage-guided campaigns with the auditor on (thorough only)
    for (ai, arch) in spec.archs.iter().copied().enumerate() {
        let tag = match arch {
            Arch::X86 => "x86",
            Arch::A64 => "a64",
            Arch::Rv => "rv",
        };
        let lcfg = (spec.lin_cfg)(ctx, arch);
        // the target decodes with the configuration named after `@`
        let owner = if format!("{:?}", lcfg) == format!("{:?}", c09_lin_cfg(ctx, arch)) {
            "C09"
        } else if format!("{:?}", lcfg) == format!("{:?}", c13_lin_cfg(ctx, arch)) {
            "C13"
        } else {
            "base"
        };
        if format!("{:?}", lcfg) == format!("{:?}", lin_cfg_by_id(owner, ctx, arch)) {
            crate::fuzzrun::semantic_phase(ctx, &mut ev, &mut report, &format!("alin-{tag}@{owner}"), 1900 + ai as u64, &format!("linear-{}", arch.name()), 240, &|b| {
                let c = decode_lin(&lcfg, b);
                let (r, runs) = run_lin_case(ctx, arch, &c, spec.with_audit);
                finish_case(arch, spec, r, &runs, json!({"linearized": printer::Print::print_to_string(&c.prog, None), "args": c.tuples}))
            });
        }
        crate::fuzzrun::semantic_phase(ctx, &mut ev, &mut report, &format!("acore-{tag}"), 1950 + ai as u64, &format!("corepipe-{}", arch.name()), 240, &|b| {
            let (r, runs) = run_core_lin_case(ctx, arch, b, spec.with_audit);
            finish_case(arch, spec, r, &runs, json!({"domain": "generated Core program"}))
        });
    }
    if report.violations.is_empty() {
        if let Some(extra) = spec.extra {
            extra(ctx, &mut ev, &mut report);
        }
    }
    let infra: u64 = ev.discards.iter().filter(|(k, _)| k.starts_with("infra")).map(|(_, v)| *v).sum();
    if infra > 0 {
        report.infra_errors.push(format!("{infra} cases hit an infrastructure problem (see evidence)"));
    }
    finish(ctx, &ev, &report, start)
}

pub fn replay(ctx: &Ctx, spec: &Spec, sub: &str, bytes: &[u8], case: &serde_json::Value) -> CaseResult {
    if sub.starts_with("family") {
        let arch = match case["arch"].as_str().unwrap_or("") {
            "aarch64" => Arch::A64,
            "rv64" => Arch::Rv,
            _ => Arch::X86,
        };
        return family_case(arch, case["kind"].as_u64().unwrap_or(0) as usize, case["m"].as_u64().unwrap_or(8) as usize, case["n"].as_u64().unwrap_or(64) as usize);
    }
    let arch = if sub.ends_with("aarch64") {
        Arch::A64
    } else if sub.ends_with("rv64") {
        Arch::Rv
    } else {
        Arch::X86
    };
    if sub.starts_with("corepipe") {
        let (r, runs) = run_core_lin_case(ctx, arch, bytes, spec.with_audit);
        return finish_case(arch, spec, r, &runs, json!({"domain": "generated Core program"}));
    }
    if sub.starts_with("linear") {
        let c = decode_lin(&(spec.lin_cfg)(ctx, arch), bytes);
        let (r, runs) = run_lin_case(ctx, arch, &c, spec.with_audit);
        return finish_case(arch, spec, r, &runs, json!({"linearized": printer::Print::print_to_string(&c.prog, None)}));
    }
    let c = fun_case_from_json(case).unwrap_or_else(|| decode(ctx, arch, bytes));
    let (r, runs) = run_fun_case(ctx, arch, &c.prog, &c.tuples, spec.with_audit);
    finish_case(arch, spec, r, &runs, json!({"source": crate::fun_ast::emit_program(&c.prog)}))
}

/// the linear-program generator configuration of the checks that share this driver
pub fn lin_cfg_by_id(id: &str, ctx: &Ctx, arch: Arch) -> LinCfg {
    match id {
        "C09" => c09_lin_cfg(ctx, arch),
        "C13" => c13_lin_cfg(ctx, arch),
        _ => lin_cfg_for(ctx, arch),
    }
}

// ---- C09 ----

fn c09_lin_cfg(ctx: &Ctx, arch: Arch) -> LinCfg {
    let mut c = lin_cfg_for(ctx, arch);
    c.keep = 150; // more drops and re-allocations
    c
}

pub fn c09_spec<'a>(ctx: &Ctx) -> Spec<'a> {
    Spec {
        rule: "all executions of C06-C08's two domains (pipeline programs and directly generated linear programs biased to sharing, dropping, destructive and non-destructive loads, multi-block objects, closures capturing shared objects) on all three backends (RISC-V: print-free); at every statement-boundary marker the heap auditor checks: every block below the frontier is in exactly one of {reachable from the live variables, on the reusable list, on the deferred list, waiting beneath a deferred block}; lists acyclic and disjoint; stored count of every reachable/waiting block = references from live variables and from fields of reachable/deferred/waiting blocks - 1; nothing above the frontier written; plus the emulator's memory discipline (no access outside heap and own frame). Non-trivial: the run saw a count > 0, a non-empty deferred list or a multi-block chain; distinct by hash of (program, arguments, backend).",
        archs: &[Arch::X86, Arch::A64, Arch::Rv],
        n_fun: ctx.tier.pick(500, 40000),
        n_lin: ctx.tier.pick(2400, 80000),
        with_audit: true,
        lin_cfg: &c09_lin_cfg,
        post: &|_, _| None,
        nontrivial: &|r| r.audit.saw_count_gt0 || r.audit.saw_deferred || r.audit.saw_chain,
        extra: None,
    }
}

pub fn check(ctx: &Ctx) -> i32 {
    run(ctx, &c09_spec(ctx))
}

// ---- C10 (oracle 1) ----

pub fn c10_spec<'a>(ctx: &Ctx) -> Spec<'a> {
    Spec {
        rule: "oracle 1: every audited execution (as C09, all backends): the allocation frontier never lies more than 3 blocks above the peak number of blocks reachable at a statement boundary (bound derived from acquire_block: fresh memory is taken only when both free lists are empty, so at a bump everything below the frontier is reachable, under construction, or the block just acquired), and nothing above the frontier is ever written. oracle 2 (families): loops of n, 4n, 16n iterations building and dropping lists, trees, closure chains and shared structures must reach the same highest written heap address. Non-trivial (oracle 1): the run reused a block (reusable list > 1 or deferred list used) and peak reachable >= 3; (oracle 2): >= 64 iterations with >= 8 live blocks each.",
        archs: &[Arch::X86, Arch::A64, Arch::Rv],
        n_fun: ctx.tier.pick(400, 30000),
        n_lin: ctx.tier.pick(1800, 40000),
        with_audit: true,
        lin_cfg: &c09_lin_cfg,
        post: &|_, r| heapcheck::footprint_ok(&r.audit).err(),
        nontrivial: &|r| (r.audit.saw_reusable_gt1 || r.audit.saw_deferred) && r.audit.peak_reachable >= 3,
        extra: Some(&families_phase),
    }
}

// ---- C13 ----

fn c13_lin_cfg(ctx: &Ctx, arch: Arch) -> LinCfg {
    let mut c = lin_cfg_for(ctx, arch);
    c.print_weight = 40;
    c.keep = 250;
    c.observe_all = 250;
    c.max_env = 21;
    c
}

pub fn c13_spec<'a>(ctx: &Ctx) -> Spec<'a> {
    Spec {
        rule: "programs with prints at every number of live variables 0..21 and mixed kinds (directly generated linear programs: everything is kept alive across statements and all live integers are folded into the result after the last print, so a clobbered register is observable; 0..5 (x86-64) / 0..7 (AArch64) entry arguments) plus pipeline programs; oracle: the emulators' entry/return and external-call model: stack pointer alignment at each call (and at every SP-based access on AArch64), callee-saved registers and stack pointer restored at return, result in the return register, and every caller-saved register, the link register, the flags and all memory below the stack pointer are poisoned by a call, so any dependence on them faults or changes the result. Non-trivial: a print call executed with >= 5 live variables; distinct by hash of (program, arguments, backend).",
        archs: &[Arch::X86, Arch::A64],
        n_fun: ctx.tier.pick(600, 40000),
        n_lin: ctx.tier.pick(1800, 150000),
        with_audit: false,
        lin_cfg: &c13_lin_cfg,
        post: &|_, _| None,
        nontrivial: &|r| r.ax.prints > 0 && r.ax.max_env >= 5,
        extra: None,
    }
}

// ---- C10, oracle 2: space independent of the number of iterations ----

pub fn family_case(arch: Arch, kind: usize, m: usize, n: usize) -> CaseResult {
    let text = crate::families::space_family(kind, m);
    let (_lin, asm) = match compile_fun(&text, arch) {
        Ok(x) => x,
        Err(CaseResult::Fail(f)) => return CaseResult::Fail(f),
        Err(_) => return CaseResult::Discard(format!("infra: family {kind} does not compile for {}", arch.name())),
    };
    let mut marks = vec![];
    for nn in [n, 4 * n, 16 * n] {
        let r = emulate(arch, &asm, &[nn as i64], 4_000_000_000, None);
        match r.outcome {
            Ok(_) => marks.push((nn, r.heap_high_water, r.steps)),
            Err(f) => {
                return CaseResult::Fail(Failure {
                    kind: "family-fault".into(),
                    summary: format!("{}: loop family {kind} (m = {m}) with n = {nn} faults: {f}", arch.name()),
                    details: json!({"source": text, "n": nn}),
                });
            }
        }
    }
    if marks.iter().any(|(_, h, _)| *h != marks[0].1) {
        return CaseResult::Fail(Failure {
            kind: "family-space".into(),
            summary: format!(
                "{}: loop family {kind} (m = {m}): highest written heap address depends on the number of iterations: {:?}",
                arch.name(),
                marks.iter().map(|(n, h, _)| (*n, *h / 64)).collect::<Vec<_>>()
            ),
            details: json!({"source": text, "blocks_by_n": marks.iter().map(|(n, h, _)| json!([n, h / 64])).collect::<Vec<_>>()}),
        });
    }
    CaseResult::Pass {
        nontrivial: n >= 64 && marks[0].1 / 64 >= 8,
        hash: hash_str(&format!("fam{}{kind}/{m}/{n}", arch.name())),
        classes: vec![format!("family {kind}"), format!("arch:{}", arch.name())],
        sample: Some(json!({"family": kind, "m": m, "iterations": [n, 4 * n, 16 * n], "arch": arch.name(), "blocks": marks[0].1 / 64})),
    }
}

fn families_phase(ctx: &Ctx, ev: &mut Evidence, report: &mut Report) {
    use rayon::prelude::*;
    let mut cases = vec![];
    for arch in [Arch::X86, Arch::A64, Arch::Rv] {
        for kind in 0..5usize {
            for m in ctx.tier.pick(vec![8usize], vec![4, 8, 16]) {
                cases.push((arch, kind, m, ctx.tier.pick(64usize, 128)));
            }
        }
    }
    let results: Vec<_> = cases.par_iter().map(|(a, k, m, n)| family_case(*a, *k, *m, *n)).collect();
    for ((a, k, m, n), r) in cases.iter().zip(results.iter()) {
        if let CaseResult::Fail(f) = r {
            if report.violations.is_empty() {
                eprintln!("{}", f.summary);
                report.violations.push(write_replay_with(ctx, "family", &[], f, json!({"arch": a.name(), "kind": k, "m": m, "n": n})));
            }
        }
        ev.absorb(r);
    }
}

//! C11 — explicit substitutions are compiled as simultaneous assignments.
//!
//! Exhaustive enumeration of maps new[m] -> old[n], kinds of the old variables and window offsets
//! across each backend's register/spill boundary; every configuration is wrapped into a tiny
//! linear program (prelude building the old environment, the substitution under test, an epilogue
//! observing every variable), executed on the emulator with the heap auditor switched on and
//! compared with the positional AxCut machine.

use super::backend::*;
use crate::choice::Chooser;
use crate::pipeline::Arch;
use crate::runner::*;
use axcut::syntax as ax;
use axcut::syntax::statements as st;
use rayon::prelude::*;
use serde_json::json;
use std::rc::Rc;
use std::time::Instant;

#[derive(Clone, Copy, Debug, PartialEq, Eq)]
pub enum Kind {
    Ext,
    /// object with two integer fields (one block)
    Obj,
    /// nullary constructor: no memory, first temporary is 0
    Null,
    /// object with five fields (two blocks)
    Big,
    /// the same object as the previous object variable (count > 0 before the substitution)
    Alias,
}

#[derive(Clone, Debug)]
pub struct Config {
    pub arch: Arch,
    pub offset: usize,
    pub kinds: Vec<Kind>,
    pub map: Vec<usize>,
    pub pad_objects: bool,
}

fn id(name: &str, n: usize) -> ax::Identifier {
    ax::Identifier { name: name.into(), id: n }
}
fn ext(v: ax::Identifier) -> ax::ContextBinding {
    ax::ContextBinding { var: v, chi: ax::Chirality::Ext, ty: ax::Ty::I64 }
}
fn obj(v: ax::Identifier) -> ax::ContextBinding {
    ax::ContextBinding { var: v, chi: ax::Chirality::Prd, ty: ax::Ty::Decl(id("T", 0)) }
}
fn tctx(b: Vec<ax::ContextBinding>) -> ax::TypingContext {
    ax::TypingContext { bindings: b }
}

enum Step {
    Lit(i64, ax::Identifier),
    Let(ax::Identifier, &'static str, Vec<ax::ContextBinding>),
    Subst(Vec<(ax::ContextBinding, ax::Identifier)>),
    Print(ax::Identifier),
}

struct Builder {
    next: usize,
    env: Vec<ax::ContextBinding>,
    steps: Vec<Step>,
    lit: i64,
    /// constructor of every object variable (by id)
    tags: Vec<(usize, &'static str)>,
}

impl Builder {
    fn fresh(&mut self, n: &str) -> ax::Identifier {
        self.next += 1;
        id(n, self.next)
    }
    fn lit(&mut self) -> ax::Identifier {
        let v = self.fresh("l");
        self.lit += 1;
        self.steps.push(Step::Lit(1000 + self.lit, v.clone()));
        self.env.push(ext(v.clone()));
        v
    }
    fn object(&mut self, fields: usize) -> ax::Identifier {
        let mut args = vec![];
        for _ in 0..fields {
            let l = self.lit();
            args.push(ext(l));
        }
        let n = self.env.len();
        self.env.truncate(n - fields);
        let v = self.fresh("o");
        let tag = match fields {
            0 => "K0",
            2 => "K2",
            _ => "K5",
        };
        self.steps.push(Step::Let(v.clone(), tag, args));
        self.tags.push((v.id, tag));
        self.env.push(obj(v.clone()));
        v
    }
    /// substitute with targets given as indices into the current environment
    fn subst(&mut self, targets: &[usize]) {
        let mut seen = vec![false; self.env.len()];
        let mut new_env = vec![];
        let mut re = vec![];
        for t in targets {
            let old = self.env[*t].clone();
            let var = if !seen[*t] {
                seen[*t] = true;
                old.var.clone()
            } else {
                self.fresh(&old.var.name)
            };
            let nb = ax::ContextBinding { var, ..old.clone() };
            if let Some((_, t)) = self.tags.iter().find(|(i, _)| *i == old.var.id).copied() {
                if nb.var.id != old.var.id {
                    self.tags.push((nb.var.id, t));
                }
            }
            new_env.push(nb.clone());
            re.push((nb, old.var));
        }
        self.steps.push(Step::Subst(re));
        self.env = new_env;
    }
}

fn types() -> Vec<ax::TypeDeclaration> {
    let f = |n: usize| tctx((0..n).map(|i| ext(id(&format!("f{i}"), 0))).collect());
    vec![ax::TypeDeclaration {
        name: id("T", 0),
        xtors: vec![
            ax::XtorSig { name: id("K0", 0), args: f(0) },
            ax::XtorSig { name: id("K2", 0), args: f(2) },
            ax::XtorSig { name: id("K5", 0), args: f(5) },
        ],
    }]
}

fn trivial_exit(b: &mut Builder) -> ax::Statement {
    let v = b.fresh("r");
    ax::Statement::Literal(st::Literal {
        lit: 7,
        var: v.clone(),
        next: Rc::new(ax::Statement::Exit(st::Exit { var: v })),
        free_vars_next: None,
    })
}

/// tag of an object variable (known statically from how the prelude built it)
fn tag_of(b: &Builder, v: &ax::Identifier) -> &'static str {
    b.tags.iter().find(|(id, _)| *id == v.id).map(|(_, t)| *t).unwrap_or("K2")
}

fn fields_of(tag: &str) -> usize {
    match tag {
        "K0" => 0,
        "K2" => 2,
        _ => 5,
    }
}

/// The observation epilogue: print every integer, then open the objects from the last to the
/// first (only the clause of the object's actual constructor continues; the others are dead).
fn observe(b: &mut Builder, budget: &mut usize) -> ax::Statement {
    let exts: Vec<ax::Identifier> =
        b.env.iter().filter(|x| x.chi == ax::Chirality::Ext).map(|x| x.var.clone()).collect();
    let mut prints: Vec<ax::Identifier> = exts;
    let objs: Vec<usize> = b.env.iter().enumerate().filter(|(_, x)| x.chi != ax::Chirality::Ext).map(|(i, _)| i).collect();
    let tail: ax::Statement = if objs.is_empty() || *budget == 0 {
        trivial_exit(b)
    } else {
        *budget -= 1;
        // keep only the objects, the last one is matched
        let saved_steps = std::mem::take(&mut b.steps);
        b.subst(&objs);
        let Some(Step::Subst(re)) = b.steps.pop() else { unreachable!() };
        b.steps = saved_steps;
        let scrut = b.env.pop().unwrap();
        let rest = b.env.clone();
        let actual = tag_of(b, &re.last().unwrap().1);
        let mut clauses = vec![];
        for tag in ["K0", "K2", "K5"] {
            let n = fields_of(tag);
            let fields: Vec<ax::ContextBinding> = (0..n).map(|_| ext(b.fresh("q"))).collect();
            let body = if tag == actual {
                b.env = rest.clone();
                b.env.extend(fields.iter().cloned());
                observe(b, budget)
            } else {
                trivial_exit(b)
            };
            clauses.push(st::Clause { xtor: id(tag, 0), context: tctx(fields), body: Rc::new(body) });
        }
        let sw = ax::Statement::Switch(st::Switch {
            var: scrut.var,
            ty: ax::Ty::Decl(id("T", 0)),
            clauses,
            free_vars_clauses: None,
        });
        ax::Statement::Substitute(st::Substitute { rearrange: re, next: Rc::new(sw) })
    };
    let mut s = tail;
    prints.reverse();
    for p in prints {
        s = ax::Statement::PrintI64(st::PrintI64 { newline: false, var: p, next: Rc::new(s), free_vars_next: None });
    }
    s
}

pub fn build(cfg: &Config, with_print: bool) -> ax::Prog {
    let mut b = Builder { next: 0, env: vec![], steps: vec![], lit: 0, tags: vec![] };
    // padding before the window
    for i in 0..cfg.offset {
        if cfg.pad_objects && i % 3 == 1 {
            b.object(2);
        } else {
            b.lit();
        }
    }
    let base = b.env.len();
    // the old window
    let mut i = 0;
    while i < cfg.kinds.len() {
        match cfg.kinds[i] {
            Kind::Ext => {
                b.lit();
            }
            Kind::Obj => {
                b.object(2);
            }
            Kind::Null => {
                b.object(0);
            }
            Kind::Big => {
                b.object(5);
            }
            Kind::Alias => {
                // duplicate the previous variable (must be an object); otherwise a plain object
                let n = b.env.len();
                if n > base && b.env[n - 1].chi != ax::Chirality::Ext {
                    let mut t: Vec<usize> = (0..n).collect();
                    t.push(n - 1);
                    b.subst(&t);
                } else {
                    b.object(2);
                }
            }
        }
        i += 1;
    }
    // the substitution under test: padding stays, new window maps into the old one
    let mut targets: Vec<usize> = (0..base).collect();
    for m in &cfg.map {
        targets.push(base + *m);
    }
    b.subst(&targets);
    let mut budget = 12usize;
    let tail = if with_print {
        observe(&mut b, &mut budget)
    } else {
        observe_noprint(&mut b)
    };
    let mut s = tail;
    for st_ in std::mem::take(&mut b.steps).into_iter().rev() {
        s = match st_ {
            Step::Lit(n, v) => ax::Statement::Literal(st::Literal { lit: n, var: v, next: Rc::new(s), free_vars_next: None }),
            Step::Let(v, tag, args) => ax::Statement::Let(st::Let {
                var: v,
                ty: ax::Ty::Decl(id("T", 0)),
                tag: id(tag, 0),
                args: tctx(args),
                next: Rc::new(s),
                free_vars_next: None,
            }),
            Step::Subst(re) => ax::Statement::Substitute(st::Substitute { rearrange: re, next: Rc::new(s) }),
            Step::Print(v) => ax::Statement::PrintI64(st::PrintI64 { newline: false, var: v, next: Rc::new(s), free_vars_next: None }),
        };
    }
    ax::Prog { defs: vec![ax::Def { name: id("main", 0), context: tctx(vec![]), body: s }], types: types(), max_id: b.next + 1000 }
}

/// RISC-V has no print: fold all integers (and object fields) into the result instead.  After
/// every folded variable a substitute drops the temporaries so that the environment shrinks.
fn observe_noprint(b: &mut Builder) -> ax::Statement {
    enum E {
        Op(ax::Identifier, ax::Identifier, ax::Identifier),
        Sub(Vec<(ax::ContextBinding, ax::Identifier)>),
    }
    fn fold(b: &mut Builder, budget: usize) -> ax::Statement {
        let mut emitted: Vec<E> = vec![];
        // fold all integers into the first one
        loop {
            let exts: Vec<usize> =
                b.env.iter().enumerate().filter(|(_, x)| x.chi == ax::Chirality::Ext).map(|(i, _)| i).collect();
            if exts.len() < 2 {
                break;
            }
            let acc = b.env[exts[0]].var.clone();
            let v = b.env[exts[1]].var.clone();
            let t1 = b.fresh("s");
            emitted.push(E::Op(acc.clone(), acc.clone(), t1.clone()));
            b.env.push(ext(t1.clone()));
            let t2 = b.fresh("s");
            emitted.push(E::Op(t1.clone(), v.clone(), t2.clone()));
            b.env.push(ext(t2.clone()));
            // new environment: t2 first, then everything except acc, v, t1, t2
            let n = b.env.len();
            let mut targets = vec![n - 1];
            for i in 0..n - 2 {
                if i != exts[0] && i != exts[1] {
                    targets.push(i);
                }
            }
            let saved = std::mem::take(&mut b.steps);
            b.subst(&targets);
            let Some(Step::Subst(re)) = b.steps.pop() else { unreachable!() };
            b.steps = saved;
            emitted.push(E::Sub(re));
        }
        let objs: Vec<usize> =
            b.env.iter().enumerate().filter(|(_, x)| x.chi != ax::Chirality::Ext).map(|(i, _)| i).collect();
        let tail = if objs.is_empty() || budget == 0 {
            match b.env.iter().find(|x| x.chi == ax::Chirality::Ext) {
                Some(a) => ax::Statement::Exit(st::Exit { var: a.var.clone() }),
                None => trivial_exit(b),
            }
        } else {
            // accumulator (if any) first, then the objects; the last object is matched
            let mut targets: Vec<usize> =
                b.env.iter().enumerate().filter(|(_, x)| x.chi == ax::Chirality::Ext).map(|(i, _)| i).collect();
            targets.extend(objs.iter().copied());
            let saved = std::mem::take(&mut b.steps);
            b.subst(&targets);
            let Some(Step::Subst(re)) = b.steps.pop() else { unreachable!() };
            b.steps = saved;
            let scrut = b.env.pop().unwrap();
            let rest = b.env.clone();
            let actual = tag_of(b, &re.last().unwrap().1);
            let mut clauses = vec![];
            for tag in ["K0", "K2", "K5"] {
                let n = fields_of(tag);
                let fields: Vec<ax::ContextBinding> = (0..n).map(|_| ext(b.fresh("q"))).collect();
                let body = if tag == actual {
                    b.env = rest.clone();
                    b.env.extend(fields.iter().cloned());
                    fold(b, budget - 1)
                } else {
                    trivial_exit(b)
                };
                clauses.push(st::Clause { xtor: id(tag, 0), context: tctx(fields), body: Rc::new(body) });
            }
            let sw = ax::Statement::Switch(st::Switch {
                var: scrut.var,
                ty: ax::Ty::Decl(id("T", 0)),
                clauses,
                free_vars_clauses: None,
            });
            ax::Statement::Substitute(st::Substitute { rearrange: re, next: Rc::new(sw) })
        };
        let mut s = tail;
        for e in emitted.into_iter().rev() {
            s = match e {
                E::Op(a, c, t) => ax::Statement::Op(st::Op { fst: a, op: ax::BinOp::Sum, snd: c, var: t, next: Rc::new(s), free_vars_next: None }),
                E::Sub(re) => ax::Statement::Substitute(st::Substitute { rearrange: re, next: Rc::new(s) }),
            };
        }
        s
    }
    fold(b, 8)
}

pub fn run_config(ctx: &Ctx, cfg: &Config) -> CaseResult {
    let prog = build(cfg, cfg.arch != Arch::Rv);
    let c = LinCase { prog, tuples: vec![vec![]], gstats: Default::default() };
    let (r, _runs) = run_lin_case(ctx, cfg.arch, &c, true);
    match r {
        CaseResult::Fail(mut f) => {
            f.summary = format!("substitution {:?} (kinds {:?}, window offset {}): {}", cfg.map, cfg.kinds, cfg.offset, f.summary);
            f.details["config"] = json!(format!("{cfg:?}"));
            CaseResult::Fail(f)
        }
        CaseResult::Pass { hash, mut classes, sample, .. } => {
            let nontrivial = !cfg.map.is_empty() && !cfg.kinds.is_empty();
            let mut uses = vec![0; cfg.kinds.len()];
            for m in &cfg.map {
                uses[*m] += 1;
            }
            classes.clear();
            classes.push(format!("arch:{}", cfg.arch.name()));
            if uses.iter().zip(&cfg.kinds).any(|(u, k)| *u == 0 && *k != Kind::Ext) {
                classes.push("drops an object".into());
            }
            if uses.iter().zip(&cfg.kinds).any(|(u, k)| *u > 1 && *k != Kind::Ext) {
                classes.push("duplicates an object".into());
            }
            // cycle detection in the permutation part
            if cfg.map.iter().enumerate().any(|(i, m)| *m != i && cfg.map.get(*m).is_some_and(|b| *b == i)) {
                classes.push("swap (2-cycle)".into());
            }
            CaseResult::Pass { nontrivial, hash: hash ^ hash_str(&format!("{cfg:?}")), classes, sample: if cfg.map.len() >= 3 { sample } else { None } }
        }
        d => d,
    }
}

fn maps(m: usize, n: usize) -> Vec<Vec<usize>> {
    if m == 0 {
        return vec![vec![]];
    }
    if n == 0 {
        return vec![];
    }
    let mut out = vec![];
    let total = n.pow(m as u32);
    for mut k in 0..total {
        let mut v = vec![];
        for _ in 0..m {
            v.push(k % n);
            k /= n;
        }
        out.push(v);
    }
    out
}

fn kind_vectors(n: usize, alphabet: &[Kind]) -> Vec<Vec<Kind>> {
    let mut out = vec![vec![]];
    for _ in 0..n {
        let mut next = vec![];
        for v in &out {
            for k in alphabet {
                let mut w = v.clone();
                w.push(*k);
                next.push(w);
            }
        }
        out = next;
    }
    out
}

pub fn offsets(arch: Arch, w: usize) -> Vec<usize> {
    match arch {
        // register file boundary after 6 variables
        Arch::X86 => (0..=8).collect(),
        // boundary after 13 variables
        Arch::A64 => {
            let mut v = vec![0];
            v.extend(7..=15);
            v
        }
        // no spills; at most 14 variables (the epilogue needs a few more temporaries)
        Arch::Rv => [0usize, 2, 5, 7].iter().copied().filter(|o| o + w + 2 <= 14).collect(),
    }
}

pub fn check(ctx: &Ctx) -> i32 {
    let start = Instant::now();
    let mut ev = Evidence::default();
    let maxw = ctx.tier.pick(3, 5);
    ev.rule = format!("exhaustive: all maps from a new window of m <= {maxw} variables to an old window of n <= {maxw} variables x all kind assignments of the old variables over {{integer, one-block object, null object}} x all window offsets placing the window before, across and after the register/spill boundary of each backend (x86-64: 0..8, AArch64: 0, 7..15, RISC-V: all that fit into 14 variables), each with and without object padding; plus a seeded random sample with windows up to 12 variables, two-block objects and aliased objects (count > 0 before the substitution). Each configuration is a tiny linear program (prelude, the substitution, an epilogue printing/folding every integer and opening every object) run on the emulator with the heap auditor at every marker and compared with the positional AxCut machine. Non-trivial: m >= 1 and n >= 1; distinct by hash of the configuration.");
    ev.assumptions = vec!["emulators and heap auditor (DESIGN.md 3.4, 3.5)".into()];
    let mut configs: Vec<Config> = vec![];
    for arch in [Arch::X86, Arch::A64, Arch::Rv] {
        for n in 0..=maxw {
            for m in 0..=maxw {
                let ms = maps(m, n);
                if ms.is_empty() {
                    continue;
                }
                let alphabet: &[Kind] = if n <= 3 { &[Kind::Ext, Kind::Obj, Kind::Null] } else { &[Kind::Ext, Kind::Obj] };
                for kinds in kind_vectors(n, alphabet) {
                    for off in offsets(arch, n.max(m)) {
                        // quick tier: object padding only at even offsets
                        for pad in [false, true] {
                            if pad && (off == 0 || (ctx.tier == Tier::Quick && off % 2 == 1)) {
                                continue;
                            }
                            for map in &ms {
                                configs.push(Config { arch, offset: off, kinds: kinds.clone(), map: map.clone(), pad_objects: pad });
                            }
                        }
                    }
                }
            }
        }
    }
    ev.exhaustive = true;
    let results: Vec<(usize, CaseResult)> = configs
        .par_iter()
        .enumerate()
        .map(|(i, c)| (i, run_config(ctx, c)))
        .collect();
    let mut report = Report { violations: vec![], infra_errors: vec![] };
    let mut first_fail: Option<usize> = None;
    for (i, r) in &results {
        if matches!(r, CaseResult::Fail(_)) {
            if first_fail.is_none() {
                first_fail = Some(*i);
                ev.absorb(r);
            }
        } else {
            ev.absorb(r);
        }
    }
    if let Some(i) = first_fail {
        if let CaseResult::Fail(f) = &results[i].1 {
            eprintln!("{}", f.summary);
            let cfgv = config_json(&configs[i]);
            report.violations.push(write_replay_with(ctx, "exhaustive", &[], f, cfgv));
        }
    } else {
        // random larger substitutions
        let n = ctx.tier.pick(1500, 100000);
        let run = |b: &[u8]| run_config(ctx, &random_config(b));
        let out = drive(&mut ev, ctx.seed, 11, n, 20, 200, 300, &run);
        if let Some((bytes, f)) = out.failure {
            eprintln!("{}", f.summary);
            report.violations.push(write_replay(ctx, "random", &bytes, &f));
        }
    }
    ev.extra.insert("configurations_enumerated".into(), json!(configs.len()));
    let infra: u64 = ev.discards.iter().filter(|(k, _)| k.starts_with("infra")).map(|(_, v)| *v).sum();
    if infra > 0 {
        report.infra_errors.push(format!("{infra} cases hit an infrastructure problem (see evidence)"));
    }
    finish(ctx, &ev, &report, start)
}

pub fn random_config(bytes: &[u8]) -> Config {
    let mut c = Chooser::new(bytes);
    let arch = [Arch::X86, Arch::A64, Arch::Rv][c.choose(3)];
    let cap = if arch == Arch::Rv { 6 } else { 12 };
    let n = 1 + c.choose(cap);
    let m = c.choose(cap + 1);
    let kinds: Vec<Kind> = (0..n)
        .map(|_| [Kind::Ext, Kind::Obj, Kind::Null, Kind::Big, Kind::Alias][c.weighted(&[40, 25, 10, 12, 13])])
        .collect();
    let map: Vec<usize> = (0..m).map(|_| c.choose(n)).collect();
    let offset = if arch == Arch::Rv { c.choose(3) } else { c.choose(16) };
    Config { arch, offset, kinds, map, pad_objects: c.boolean() }
}

fn config_json(c: &Config) -> serde_json::Value {
    json!({
        "arch": c.arch.name(),
        "offset": c.offset,
        "kinds": c.kinds.iter().map(|k| format!("{k:?}")).collect::<Vec<_>>(),
        "map": c.map,
        "pad_objects": c.pad_objects,
    })
}

fn config_from_json(v: &serde_json::Value) -> Option<Config> {
    let arch = match v["arch"].as_str()? {
        "x86_64" => Arch::X86,
        "aarch64" => Arch::A64,
        _ => Arch::Rv,
    };
    let kinds = v["kinds"]
        .as_array()?
        .iter()
        .map(|k| match k.as_str().unwrap_or("") {
            "Ext" => Kind::Ext,
            "Obj" => Kind::Obj,
            "Null" => Kind::Null,
            "Big" => Kind::Big,
            _ => Kind::Alias,
        })
        .collect();
    let map = v["map"].as_array()?.iter().map(|x| x.as_u64().unwrap_or(0) as usize).collect();
    Some(Config { arch, offset: v["offset"].as_u64()? as usize, kinds, map, pad_objects: v["pad_objects"].as_bool()? })
}

pub fn replay(ctx: &Ctx, sub: &str, bytes: &[u8], case: &serde_json::Value) -> CaseResult {
    let cfg = if sub.starts_with("random") { random_config(bytes) } else { config_from_json(case).unwrap_or_else(|| random_config(bytes)) };
    let r = run_config(ctx, &cfg);
    if ctx.verbose {
        println!("{}", printer::Print::print_to_string(&build(&cfg, cfg.arch != Arch::Rv), None));
    }
    r
}

//! C12 — accepted programs stay well-typed at every stage and no stage fails internally.

use super::common::*;
use crate::fun_ast::{Program, emit_program};
use crate::gen_fun::{GenCfg, gen_program_with_args};
use crate::pipeline::{self, Arch, StageError};
use crate::runner::*;
use crate::{tc_axcut, tc_core};
use printer::Print;
use serde_json::json;
use std::time::Instant;

pub fn cfg_for(ctx: &Ctx) -> GenCfg {
    GenCfg { size: ctx.tier.pick(40, 70), max_defs: 5, max_main_params: 5, reuse: 90, adversarial: true, ..GenCfg::default() }
}

pub fn decode(ctx: &Ctx, bytes: &[u8]) -> FunCase {
    let (prog, tuples, _gs) = gen_program_with_args(bytes, &cfg_for(ctx), 1, false);
    FunCase { prog, tuples }
}

fn uses_print(p: &axcut::syntax::Prog) -> bool {
    fn go(s: &axcut::syntax::Statement) -> bool {
        use axcut::syntax::Statement::*;
        match s {
            PrintI64(_) => true,
            Substitute(x) => go(&x.next),
            Let(x) => go(&x.next),
            Switch(x) => x.clauses.iter().any(|c| go(&c.body)),
            Create(x) => go(&x.next) || x.clauses.iter().any(|c| go(&c.body)),
            Literal(x) => go(&x.next),
            Op(x) => go(&x.next),
            IfC(x) => go(&x.thenc) || go(&x.elsec),
            Call(_) | Invoke(_) | Exit(_) => false,
        }
    }
    p.defs.iter().any(|d| go(&d.body))
}

pub fn run_case(_ctx: &Ctx, prog: &Program, _tuples: &[Vec<i64>]) -> CaseResult {
    let text = emit_program(prog);
    let fail = |kind: &str, summary: String, extra: serde_json::Value| {
        let mut d = json!({"source": text});
        if let (Some(o), Some(e)) = (d.as_object_mut(), extra.as_object()) {
            for (k, v) in e {
                o.insert(k.clone(), v.clone());
            }
        }
        CaseResult::Fail(Failure { kind: kind.into(), summary, details: d })
    };
    let internal = |e: StageError| -> CaseResult {
        match e {
            StageError::Panic { stage, msg } if pipeline::is_capacity_panic(&msg) => {
                CaseResult::Discard(format!("capacity ({stage})"))
            }
            StageError::Panic { stage, msg } => fail("internal", format!("internal failure in {stage}: {msg}"), json!({})),
            other => CaseResult::Discard(format!("{other}")),
        }
    };
    let checked = match pipeline::parse(&text).and_then(pipeline::check) {
        Ok(c) => c,
        Err(e @ StageError::Panic { .. }) => return internal(e),
        Err(_) => return CaseResult::Discard("rejected by the front end (decided by C15)".into()),
    };
    let core = match pipeline::to_core(checked) {
        Ok(c) => c,
        Err(e) => return internal(e),
    };
    if let Err(e) = tc_core::check_prog(&core) {
        return fail("core", format!("translated Core program is ill-typed: {e}"), json!({"core": core.print_to_string(None)}));
    }
    let uniq = match pipeline::uniquify(core.clone()) {
        Ok(c) => c,
        Err(e) => return internal(e),
    };
    if let Err(e) = tc_core::check_prog(&uniq) {
        return fail("uniquified", format!("uniquified Core program is ill-typed: {e}"), json!({"uniquified": uniq.print_to_string(None)}));
    }
    let focused = match pipeline::focus(core.clone()) {
        Ok(c) => c,
        Err(e) => return internal(e),
    };
    if let Err(e) = tc_core::check_fs_prog(&focused) {
        return fail("focused", format!("focused Core program is ill-typed: {e}"), json!({"focused": focused.print_to_string(None)}));
    }
    let shrunk = match pipeline::shrink(focused) {
        Ok(c) => c,
        Err(e) => return internal(e),
    };
    if let Err(e) = tc_axcut::check_named(&shrunk) {
        return fail("axcut", format!("AxCut program is ill-typed: {e}"), json!({"axcut": shrunk.print_to_string(None)}));
    }
    let linear = match pipeline::linearize(shrunk.clone()) {
        Ok(c) => c,
        Err(e) => return internal(e),
    };
    if let Err(e) = tc_axcut::check_linear(&linear) {
        return fail("linear", format!("linearized program is ill-typed: {e}"), json!({"linearized": linear.print_to_string(None)}));
    }
    let has_print = uses_print(&linear);
    let mut classes = program_classes(prog);
    for arch in [Arch::X86, Arch::A64, Arch::Rv] {
        if arch == Arch::Rv && has_print {
            continue;
        }
        match pipeline::codegen(linear.clone(), arch) {
            Ok(_) => classes.push(format!("codegen:{}", arch.name())),
            Err(StageError::Panic { msg, .. }) if pipeline::is_capacity_panic(&msg) => {
                classes.push(format!("capacity:{}", arch.name()));
            }
            Err(e) => return fail("internal", format!("{}: {e}", arch.name()), json!({"linearized": linear.print_to_string(None)})),
        }
    }
    let instances = core.data_types.len() + core.codata_types.len();
    let lifted = core.defs.iter().filter(|d| d.name.name.starts_with("share_")).count()
        + shrunk.defs.iter().filter(|d| d.name.name.starts_with("lift_")).count();
    if lifted > 0 {
        classes.push("lifted/shared label".into());
    }
    if instances >= 3 {
        classes.push("type instances>=3".into());
    }
    CaseResult::Pass {
        nontrivial: instances >= 2 && lifted >= 1,
        hash: hash_str(&text),
        classes,
        sample: Some(json!({"source": text})),
    }
}

pub fn check(ctx: &Ctx) -> i32 {
    let start = Instant::now();
    let mut ev = Evidence::default();
    ev.rule = "generated Fun programs (all constructs, effects anywhere, name reuse, compiler-style identifiers) that the checker accepts; every stage runs under catch_unwind (only the two documented capacity assertions are tolerated); independent checkers: Core type/scope checker on compile_prog's output, on the uniquified and on the focused program; AxCut checker on shrink_prog's output (scoping, kinds, types, clauses one per xtor in declaration order, call/let/invoke arguments against signatures); ordered-linear checker on the linearized program; all three code generators (RISC-V only for print-free programs). Non-trivial: >= 2 monomorphic type instances and >= 1 lifted/shared label; distinct by hash of the source. Second domain: directly generated well-typed Core programs (gen_core, print-free) run through focusing, shrinking, linearization and the three code generators with the same independent checkers.".into();
    ev.assumptions = vec!["the checkers implement exactly the rules listed in property C12".into()];
    let n = ctx.tier.pick(3000, 200000);
    // debugging aid: VERIF_ONLY=gencore skips the first domain
    let n = if std::env::var("VERIF_ONLY").as_deref() == Ok("gencore") { 0 } else { n };
    let run = |b: &[u8]| {
        let c = decode(ctx, b);
        run_case(ctx, &c.prog, &c.tuples)
    };
    let out = drive(&mut ev, ctx.seed, 12, n, 100, 3000, 200, &run);
    let mut report = Report { violations: vec![], infra_errors: vec![] };
    if let Some((bytes, f)) = out.failure {
        let c = decode(ctx, &bytes);
        let (c2, f2) = shrink_fun_case(&c, &f, 3000, &|p, t| run_case(ctx, p, t));
        eprintln!("{}", f2.summary);
        report.violations.push(write_replay_with(ctx, "stages", &bytes, &f2, fun_case_json(&c2)));
    }
    // second domain: Core programs generated directly
    if report.violations.is_empty() {
        use super::corecase::{self, Mode};
        let n2 = ctx.tier.pick(3000, 200000);
        let run2 = |b: &[u8]| corecase::run(ctx, Mode::Stages, b);
        let out2 = drive(&mut ev, ctx.seed, 112, n2, 60, 1500, 300, &run2);
        if let Some((bytes, f)) = out2.failure {
            eprintln!("{}", f.summary);
            report.violations.push(write_replay(ctx, "gencore", &bytes, &f));
        }
    }
    // coverage-guided campaign over the generator's choice buffers (thorough only)
    crate::fuzzrun::semantic_phase(ctx, &mut ev, &mut report, "stages", 1112, "gencore", 600, &|b| super::corecase::run(ctx, super::corecase::Mode::Stages, b));
    finish(ctx, &ev, &report, start)
}

pub fn replay(ctx: &Ctx, sub: &str, bytes: &[u8], case: &serde_json::Value) -> CaseResult {
    if sub.starts_with("gencore") {
        return super::corecase::run(ctx, super::corecase::Mode::Stages, bytes);
    }
    let c = fun_case_from_json(case).unwrap_or_else(|| decode(ctx, bytes));
    run_case(ctx, &c.prog, &c.tuples)
}

//! C12 — accepted programs stay well-typed at every stage and no stage fails internally.

use super::common::*;
use crate::fun_ast::{Program, emit_program};
use crate::gen_fun::{GenCfg, gen_program_with_args};
use crate::pipeline::{self, Arch, StageError};
use crate::runner::*;
use crate::{tc_axcut, tc_core};
use printer::Print;
use serde_json::json;
use std::time::Instant;

pub fn cfg_for(ctx: &Ctx) -> GenCfg {
    GenCfg { size: ctx.tier.pick(40, 70), max_defs: 5, max_main_params: 5, reuse: 90, adversarial: true, ..GenCfg::default() }
}

pub fn decode(ctx: &Ctx, bytes: &[u8]) -> FunCase {
    let (prog, tuples, _gs) = gen_program_with_args(bytes, &cfg_for(ctx), 1, false);
    FunCase { prog, tuples }
}

fn uses_print(p: &axcut::syntax::Prog) -> bool {
    fn go(s: &axcut::syntax::Statement) -> bool {
        use axcut::syntax::Statement::*;
        match s {
            PrintI64(_) => true,
            Substitute(x) => go(&x.next),
            Let(x) => go(&x.next),
            Switch(x) => x.clauses.iter().any(|c| go(&c.body)),
            Create(x) => go(&x.next) || x.clauses.iter().any(|c| go(&c.body)),
            Literal(x) => go(&x.next),
            Op(x) => go(&x.next),
            IfC(x) => go(&x.thenc) || go(&x.elsec),
            Call(_) | Invoke(_) | Exit(_) => false,
        }
    }
    p.defs.iter().any(|d| go(&d.body))
}

pub fn run_case(_ctx: &Ctx, prog: &Program, _tuples: &[Vec<i64>]) -> CaseResult {
    match run_text(emit_program(prog)) {
        CaseResult::Pass { nontrivial, hash, mut classes, sample } => {
            classes.extend(program_classes(prog));
            CaseResult::Pass { nontrivial, hash, classes, sample }
        }
        r => r,
    }
}

/// Instance-name matrix: the name of a monomorphic instance is the printed type; instances whose
/// printed name is `len` characters long (nested `Box[..]` around a template whose name pads to
/// the exact length), for every length around the printer's page width, built, passed, matched.
pub fn long_instance_program(len: usize, two_params: bool) -> Option<String> {
    // t_1 = N<pad>[i64] (or P<pad>[i64, i64]), t_{j+1} = Box[t_j]; |t_{j+1}| = |t_j| + 5
    let base_min = if two_params { "P[i64, i64]".len() } else { "N[i64]".len() };
    if len < base_min {
        return None;
    }
    let levels = (len - base_min) / 5;
    let levels = levels.min(24);
    let pad = len - base_min - 5 * levels;
    let inner_name = format!("{}{}", if two_params { "P" } else { "N" }, "q".repeat(pad));
    let mut tys = vec![if two_params { format!("{inner_name}[i64, i64]") } else { format!("{inner_name}[i64]") }];
    for j in 0..levels {
        tys.push(format!("Box[{}]", tys[j]));
    }
    let top = tys.last().unwrap().clone();
    debug_assert_eq!(top.len(), len);
    let mut value = if two_params { "MkI(5, 6)".to_string() } else { "MkI(5)".to_string() };
    for _ in 0..levels {
        value = format!("MkBox({value})");
    }
    fn unwrap(var: &str, m: usize, tys: &[String], two: bool) -> String {
        if m == 0 {
            if two { format!("{var}.case[i64, i64] {{ MkI(y, z) => y + z }}") } else { format!("{var}.case[i64] {{ MkI(y) => y }}") }
        } else {
            let x = format!("x{m}");
            format!("{var}.case[{}] {{ MkBox({x}) => {} }}", tys[m - 1], unwrap(&x, m - 1, tys, two))
        }
    }
    let decl_inner = if two_params { format!("data {inner_name}[A, B] {{ MkI(y: A, z: B) }}") } else { format!("data {inner_name}[A] {{ MkI(y: A) }}") };
    Some(format!(
        "data Box[A] {{ MkBox(x: A) }}\n{decl_inner}\ndef get(b: {top}): i64 {{ {} }}\ndef mk(n: i64): {top} {{ {value} }}\ndef main(): i64 {{ let v: {top} = mk(1); get(v) }}\n",
        unwrap("b", levels, &tys, two_params)
    ))
}

pub fn run_text(text: String) -> CaseResult {
    let fail = |kind: &str, summary: String, extra: serde_json::Value| {
        let mut d = json!({"source": text});
        if let (Some(o), Some(e)) = (d.as_object_mut(), extra.as_object()) {
            for (k, v) in e {
                o.insert(k.clone(), v.clone());
            }
        }
        CaseResult::Fail(Failure { kind: kind.into(), summary, details: d })
    };
    let internal = |e: StageError| -> CaseResult {
        match e {
            StageError::Panic { stage, msg } if pipeline::is_capacity_panic(&msg) => {
                CaseResult::Discard(format!("capacity ({stage})"))
            }
            StageError::Panic { stage, msg } => fail("internal", format!("internal failure in {stage}: {msg}"), json!({})),
            other => CaseResult::Discard(format!("{other}")),
        }
    };
    let checked = match pipeline::parse(&text).and_then(pipeline::check) {
        Ok(c) => c,
        Err(e @ StageError::Panic { .. }) => return internal(e),
        Err(_) => return CaseResult::Discard("rejected by the front end (decided by C15)".into()),
    };
    let core = match pipeline::to_core(checked) {
        Ok(c) => c,
        Err(e) => return internal(e),
    };
    if let Err(e) = tc_core::check_prog(&core) {
        return fail("core", format!("translated Core program is ill-typed: {e}"), json!({"core": core.print_to_string(None)}));
    }
    let uniq = match pipeline::uniquify(core.clone()) {
        Ok(c) => c,
        Err(e) => return internal(e),
    };
    if let Err(e) = tc_core::check_prog(&uniq) {
        return fail("uniquified", format!("uniquified Core program is ill-typed: {e}"), json!({"uniquified": uniq.print_to_string(None)}));
    }
    let focused = match pipeline::focus(core.clone()) {
        Ok(c) => c,
        Err(e) => return internal(e),
    };
    if let Err(e) = tc_core::check_fs_prog(&focused) {
        return fail("focused", format!("focused Core program is ill-typed: {e}"), json!({"focused": focused.print_to_string(None)}));
    }
    let shrunk = match pipeline::shrink(focused) {
        Ok(c) => c,
        Err(e) => return internal(e),
    };
    if let Err(e) = tc_axcut::check_named(&shrunk) {
        return fail("axcut", format!("AxCut program is ill-typed: {e}"), json!({"axcut": shrunk.print_to_string(None)}));
    }
    let linear = match pipeline::linearize(shrunk.clone()) {
        Ok(c) => c,
        Err(e) => return internal(e),
    };
    if let Err(e) = tc_axcut::check_linear(&linear) {
        return fail("linear", format!("linearized program is ill-typed: {e}"), json!({"linearized": linear.print_to_string(None)}));
    }
    let has_print = uses_print(&linear);
    let mut classes: Vec<String> = vec![];
    for arch in [Arch::X86, Arch::A64, Arch::Rv] {
        if arch == Arch::Rv && has_print {
            continue;
        }
        match pipeline::codegen(linear.clone(), arch) {
            Ok(_) => classes.push(format!("codegen:{}", arch.name())),
            Err(StageError::Panic { msg, .. }) if pipeline::is_capacity_panic(&msg) => {
                classes.push(format!("capacity:{}", arch.name()));
            }
            Err(e) => return fail("internal", format!("{}: {e}", arch.name()), json!({"linearized": linear.print_to_string(None)})),
        }
    }
    let instances = core.data_types.len() + core.codata_types.len();
    let lifted = core.defs.iter().filter(|d| d.name.name.starts_with("share_")).count()
        + shrunk.defs.iter().filter(|d| d.name.name.starts_with("lift_")).count();
    if lifted > 0 {
        classes.push("lifted/shared label".into());
    }
    if instances >= 3 {
        classes.push("type instances>=3".into());
    }
    CaseResult::Pass {
        nontrivial: instances >= 2 && lifted >= 1,
        hash: hash_str(&text),
        classes,
        sample: Some(json!({"source": text})),
    }
}

pub fn check(ctx: &Ctx) -> i32 {
    let start = Instant::now();
    let mut ev = Evidence::default();
    ev.rule = "generated Fun programs (all constructs, effects anywhere, name reuse, compiler-style identifiers) that the checker accepts; every stage runs under catch_unwind (only the two documented capacity assertions are tolerated); independent checkers: Core type/scope checker on compile_prog's output, on the uniquified and on the focused program; AxCut checker on shrink_prog's output (scoping, kinds, types, clauses one per xtor in declaration order, call/let/invoke arguments against signatures); ordered-linear checker on the linearized program; all three code generators (RISC-V only for print-free programs). Non-trivial: >= 2 monomorphic type instances and >= 1 lifted/shared label; distinct by hash of the source. Second domain: directly generated well-typed Core programs (gen_core, print-free) run through focusing, shrinking, linearization and the three code generators with the same independent checkers.".into();
    ev.assumptions = vec!["the checkers implement exactly the rules listed in property C12".into()];
    let n = ctx.tier.pick(3000, 200000);
    // debugging aid: VERIF_ONLY=gencore skips the first domain
    let n = if std::env::var("VERIF_ONLY").as_deref() == Ok("gencore") { 0 } else { n };
    let run = |b: &[u8]| {
        let c = decode(ctx, b);
        run_case(ctx, &c.prog, &c.tuples)
    };
    let out = drive(&mut ev, ctx.seed, 12, n, 100, 3000, 200, &run);
    let mut report = Report { violations: vec![], infra_errors: vec![] };
    if let Some((bytes, f)) = out.failure {
        let c = decode(ctx, &bytes);
        let (c2, f2) = shrink_fun_case(&c, &f, 3000, &|p, t| run_case(ctx, p, t));
        eprintln!("{}", f2.summary);
        report.violations.push(write_replay_with(ctx, "stages", &bytes, &f2, fun_case_json(&c2)));
    }
    // second domain: Core programs generated directly
    if report.violations.is_empty() {
        use super::corecase::{self, Mode};
        let n2 = ctx.tier.pick(3000, 200000);
        let run2 = |b: &[u8]| corecase::run(ctx, Mode::Stages, b);
        let out2 = drive(&mut ev, ctx.seed, 112, n2, 60, 1500, 300, &run2);
        if let Some((bytes, f)) = out2.failure {
            eprintln!("{}", f.summary);
            report.violations.push(write_replay(ctx, "gencore", &bytes, &f));
        }
    }
    // instance-name matrix
    if report.violations.is_empty() {
        ev.rule.push_str(" Instance-name matrix: programs that declare, build, pass, bind and match an instance whose printed name is exactly L characters long, for every L in 20..=240 (one- and two-parameter innermost template), i.e. on both sides of every layout decision of the printer that produces the name.");
        for len in 20..=240usize {
            for two in [false, true] {
                let Some(text) = long_instance_program(len, two) else { continue };
                let r = match run_text(text) {
                    CaseResult::Pass { hash, mut classes, .. } => {
                        classes.push(format!("instance name of {} characters", if len <= 100 { "<= 100" } else { "> 100" }));
                        CaseResult::Pass { nontrivial: true, hash, classes, sample: None }
                    }
                    // the generated program is well-typed by construction
                    CaseResult::Discard(d) if d.starts_with("rejected") => CaseResult::Fail(Failure {
                        kind: "rejected".into(),
                        summary: format!("instance-name matrix: a well-typed program with an instance name of {len} characters is rejected"),
                        details: json!({"len": len}),
                    }),
                    CaseResult::Fail(mut f) => {
                        f.summary = format!("instance-name matrix (name of {len} characters): {}", f.summary);
                        CaseResult::Fail(f)
                    }
                    d => d,
                };
                if let CaseResult::Fail(f) = &r {
                    if report.violations.is_empty() {
                        eprintln!("{}", f.summary);
                        report.violations.push(write_replay_with(ctx, "instname", &[], f, json!({"len": len, "two_params": two})));
                    }
                }
                ev.absorb(&r);
            }
        }
    }
    // coverage-guided campaign over the generator's choice buffers (thorough only)
    crate::fuzzrun::semantic_phase(ctx, &mut ev, &mut report, "stages", 1112, "gencore", 600, &|b| super::corecase::run(ctx, super::corecase::Mode::Stages, b));
    finish(ctx, &ev, &report, start)
}

pub fn replay(ctx: &Ctx, sub: &str, bytes: &[u8], case: &serde_json::Value) -> CaseResult {
    if sub.starts_with("gencore") {
        return super::corecase::run(ctx, super::corecase::Mode::Stages, bytes);
    }
    if sub.starts_with("instname") {
        return match long_instance_program(case["len"].as_u64().unwrap_or(100) as usize, case["two_params"].as_bool().unwrap_or(false)) {
            Some(t) => run_text(t),
            None => CaseResult::Discard("no such program".into()),
        };
    }
    let c = fun_case_from_json(case).unwrap_or_else(|| decode(ctx, bytes));
    run_case(ctx, &c.prog, &c.tuples)
}

//! C14 — the emitted assembly is accepted by the target assembler.

use super::backend::{decode_lin, lin_cfg_for};
use crate::asmcheck;
use crate::fun_ast::*;
use crate::gen_fun::{GenCfg, gen_program};
use crate::native::{NativeError, Toolchain};
use crate::pipeline::{self, Arch, StageError};
use crate::runner::*;
use serde_json::json;
use std::sync::atomic::{AtomicU64, Ordering};
use std::time::Instant;

static TAG: AtomicU64 = AtomicU64::new(0);

pub fn cfg_for(ctx: &Ctx) -> GenCfg {
    GenCfg { size: ctx.tier.pick(36, 60), max_defs: 4, max_main_params: 5, adversarial: true, reuse: 60, ..GenCfg::default() }
}

/// validate + assemble the text of one backend
pub fn check_asm(tc: &Toolchain, arch: Arch, asm: &str) -> Result<Vec<String>, (String, String)> {
    let mut classes = vec![];
    asmcheck::validate(arch, asm).map_err(|e| ("malformed".to_string(), format!("{}: emitted text is malformed: {e}", arch.name())))?;
    let tag = format!("a{}", TAG.fetch_add(1, Ordering::Relaxed));
    match arch {
        Arch::X86 => {
            let obj = match tc.assemble_x86(asm, &tag) {
                Ok(o) => o,
                Err(NativeError::Assemble(m)) => return Err(("rejected".into(), format!("x86_64: the assembler rejects the emitted file: {m}"))),
                Err(NativeError::Infra(m)) => return Err(("infra".into(), m)),
            };
            let bytes = std::fs::read(&obj).unwrap_or_default();
            let _ = std::fs::remove_file(&obj);
            let tables = asmcheck::x86_tables(asm);
            if !tables.is_empty() {
                let Some(syms) = asmcheck::elf_symbols(&bytes) else {
                    return Err(("infra".into(), "cannot read the symbol table of the object".into()));
                };
                for (t, n, next) in &tables {
                    if let (Some(a), Some(b)) = (syms.get(t), syms.get(next)) {
                        if *b != a + 5 * (*n as u64) {
                            return Err((
                                "stride".into(),
                                format!("x86_64: jump table {t} has {n} entries but occupies {} bytes (the tag arithmetic assumes 5 per entry)", b - a),
                            ));
                        }
                    }
                }
                if tables.iter().any(|(_, n, _)| *n >= 3) {
                    classes.push("jump table >= 3 entries".to_string());
                }
            }
        }
        Arch::A64 => match tc.assemble_a64(asm, &tag) {
            Ok(_) => {}
            Err(NativeError::Assemble(m)) => return Err(("rejected".into(), format!("aarch64: llvm-mc rejects the emitted file: {m}"))),
            Err(NativeError::Infra(m)) => return Err(("infra".into(), m)),
        },
        Arch::Rv => {}
    }
    Ok(classes)
}

fn labels_of(asm: &str) -> Vec<String> {
    asm.lines().filter_map(|l| l.trim().strip_suffix(':').map(|s| s.to_string())).filter(|s| !s.contains(' ')).collect()
}

pub fn run_text(tc: &Toolchain, text: &str, extra_classes: Vec<String>) -> CaseResult {
    let compiled = match pipeline::front(text) {
        Ok(c) => c,
        Err(StageError::Panic { .. }) => return CaseResult::Discard("earlier stage failed (decided by C12)".into()),
        Err(_) => return CaseResult::Discard("rejected by the front end (decided by C15)".into()),
    };
    let mut classes = extra_classes;
    let big_lit = text.split(|c: char| !c.is_ascii_digit()).any(|t| t.len() >= 10 && t.parse::<i128>().is_ok_and(|v| v > i32::MAX as i128));
    if big_lit {
        classes.push("literal beyond 32 bits".into());
    }
    let has_print = text.contains("print");
    for arch in [Arch::X86, Arch::A64, Arch::Rv] {
        if arch == Arch::Rv && has_print {
            continue;
        }
        let asm = match pipeline::codegen(compiled.linear.clone(), arch) {
            Ok((a, _)) => a,
            Err(StageError::Panic { msg, .. }) if pipeline::is_capacity_panic(&msg) => continue,
            Err(_) => return CaseResult::Discard("code generation failed (decided by C12)".into()),
        };
        match check_asm(tc, arch, &asm) {
            Ok(c) => classes.extend(c),
            Err((kind, msg)) if kind == "infra" => return CaseResult::Discard(format!("infra: {msg}")),
            Err((kind, msg)) => {
                return CaseResult::Fail(Failure { kind, summary: msg, details: json!({"source": text, "arch": arch.name()}) });
            }
        }
    }
    classes.sort();
    classes.dedup();
    let nontrivial = classes.iter().any(|c| c.starts_with("literal") || c.starts_with("jump table") || c.starts_with("adversarial"));
    CaseResult::Pass { nontrivial, hash: hash_str(text), classes, sample: Some(json!({"source": text})) }
}

/// the two-pass adversarial namer: add a definition whose name prints as a label the compiler
/// generated for the same program
pub fn adversarial_variant(prog: &Program) -> Option<(Program, String)> {
    let mut p1 = prog.clone();
    let placeholder = "zzq_placeholder";
    p1.defs.push(Def { name: placeholder.into(), params: vec![], ret: Ty::I64, body: Tm::Lit(0) });
    p1.order.clear();
    let text = emit_program(&p1);
    let compiled = pipeline::front(&text).ok()?;
    let (asm, _) = pipeline::codegen(compiled.linear, Arch::X86).ok()?;
    let user: Vec<String> = p1.defs.iter().map(|d| format!("{}_", d.name)).collect();
    let generated: Vec<String> = labels_of(&asm)
        .into_iter()
        .filter(|l| l.ends_with('_') && !user.contains(l) && l.chars().next().is_some_and(|c| c.is_ascii_lowercase()))
        .collect();
    let pick = generated.iter().find(|l| l.starts_with("lift_")).or_else(|| generated.first())?;
    let name = pick.trim_end_matches('_').to_string();
    let name = if format!("{name}_") == *pick { name } else { pick[..pick.len() - 1].to_string() };
    let mut p2 = p1.clone();
    let last = p2.defs.len() - 1;
    p2.defs[last].name = name.clone();
    Some((p2, name))
}


/// Large-code matrix: every comparison form (two-operand, zero on the right, zero on the left) with
/// a large then- or else-branch, a three-constructor match, a two-destructor cocase and a
/// conditional followed by a large shared continuation.  The displacement of every branch has to
/// fit the instruction form the backend chose for it; only an assembler (or a size-aware
/// validator) can tell.
pub fn large_programs(k: usize) -> Vec<(String, String)> {
    let big = |v: &str| {
        let mut s = String::with_capacity(k * 24);
        for _ in 0..k {
            s.push_str(&format!("    println_i64({v});\n"));
        }
        s.push_str(&format!("    {v}\n"));
        s
    };
    let small = |v: &str| format!("    {v}\n");
    let mut out = vec![];
    let cmps = ["==", "!=", "<", "<=", ">", ">="];
    for (ci, c) in cmps.iter().enumerate() {
        for (fi, (l, r)) in [("x", "y"), ("x", "0"), ("0", "x")].iter().enumerate() {
            for side in 0..2 {
                let (a, b) = if side == 0 { (big("x"), small("y")) } else { (small("y"), big("x")) };
                let text = format!(
                    "def f(x: i64, y: i64): i64 {{\n  if {l} {c} {r} {{\n{a}  }} else {{\n{b}  }}\n}}\ndef main(n: i64, m: i64): i64 {{ f(n, m) }}\n"
                );
                out.push((format!("if-{}-form{}-{}", ci, fi, if side == 0 { "big-then" } else { "big-else" }), text));
            }
        }
    }
    out.push((
        "match-3".into(),
        format!(
            "data T {{ A, B(a: i64), C(a: i64, b: i64) }}\ndef f(t: T, x: i64): i64 {{\n  t.case {{\n    A => (\n{}    ),\n    B(a) => (\n{}    ),\n    C(a, b) => (\n{}    )\n  }}\n}}\ndef main(n: i64): i64 {{ f(C(n, 2), n) }}\n",
            big("x"),
            big("a"),
            big("b")
        ),
    ));
    out.push((
        "cocase-2".into(),
        format!(
            "codata P {{ fst: i64, snd: i64 }}\ndef f(x: i64, y: i64): i64 {{\n  let p: P = new {{\n    fst => (\n{}    ),\n    snd => (\n{}    )\n  }};\n  p.snd\n}}\ndef main(n: i64): i64 {{ f(n, 3) }}\n",
            big("x"),
            big("y")
        ),
    ));
    out.push((
        "shared-continuation".into(),
        format!(
            "def f(x: i64, y: i64): i64 {{\n  let z: i64 = if x < y {{ 1 }} else {{ 2 }};\n{}}}\ndef main(n: i64): i64 {{ f(n, 3) }}\n",
            big("z")
        ),
    ));
    out
}

fn large_case(tc: &Toolchain, label: &str, text: &str) -> CaseResult {
    match run_text(tc, text, vec![format!("large:{}", label.split('-').next().unwrap_or(""))]) {
        CaseResult::Pass { hash, classes, .. } => CaseResult::Pass { nontrivial: true, hash, classes, sample: None },
        CaseResult::Fail(mut f) => {
            // the source is k copies of one line: keep the replay small
            f.details = json!({"large": label});
            f.summary = format!("large-code matrix ({label}): {}", f.summary);
            CaseResult::Fail(f)
        }
        d => d,
    }
}

pub fn large_phase(ctx: &Ctx, tc: &Toolchain, ev: &mut Evidence, report: &mut Report) {
    use rayon::prelude::*;
    let sizes: Vec<usize> = if ctx.tier == Tier::Quick { vec![1200] } else { vec![1200, 4000] };
    ev.rule.push_str(" (d) Large-code matrix: every comparison in two-operand form, with zero on the right and with zero on the left, with a then- or else-branch of 1200 (thorough: also 4000) print statements, plus a three-constructor match, a two-destructor cocase and a conditional followed by a large shared continuation, so that the displacement of every conditional branch, jump-table entry and address computation is tens to hundreds of KiB; same oracle (assembler acceptance covers the branch ranges).");
    for k in sizes {
        let progs = large_programs(k);
        let results: Vec<CaseResult> = progs.par_iter().map(|(l, t)| large_case(tc, l, t)).collect();
        for (i, r) in results.iter().enumerate() {
            if let CaseResult::Fail(f) = r {
                if report.violations.is_empty() {
                    eprintln!("{}", f.summary);
                    report.violations.push(write_replay_with(ctx, "large", &[], f, json!({"k": k, "index": i, "label": progs[i].0})));
                }
            }
            ev.absorb(r);
        }
    }
}

pub fn check(ctx: &Ctx) -> i32 {
    let start = Instant::now();
    let tc = Toolchain::new(ctx.scratch.clone());
    let mut ev = Evidence::default();
    ev.rule = "assembly of all three backends for (a) generated programs with adversarial identifiers (lab1, cleanup, asm_main, share_f_0, lift_main__5, List_i64, ...), many xtors and literals of every magnitude, (b) the same programs extended by a definition whose name is chosen (two-pass) to print as a label the compiler generated for that very program, (c) directly generated linear AxCut programs; oracle: a text validator (every label defined exactly once, every referenced label defined, no runtime symbol redefined, every immediate/shift/offset within the range of its instruction form: x86-64 imm32/imm64/disp32, AArch64 imm12/imm16+LSL/scaled and unscaled offsets, RISC-V imm12), GNU as on the transliterated x86-64 file plus the byte distance of every jump table in the object's symbol table (5 per entry), llvm-mc --arch=aarch64 on the AArch64 text. Non-trivial: literal beyond 32 bits, jump table with >= 3 entries or adversarial definition name; distinct by source hash.".into();
    ev.assumptions = vec![
        "GNU as (intel syntax) stands in for yasm after a syntax-only transliteration; llvm-mc for the AArch64 assembler".into(),
        "RISC-V output is pseudo-assembly without an assembler: only the validator applies".into(),
    ];
    let mut report = Report { violations: vec![], infra_errors: vec![] };
    let cfg = cfg_for(ctx);
    // debugging aid: VERIF_ONLY=large runs only the large-code matrix
    let only_large = std::env::var("VERIF_ONLY").as_deref() == Ok("large");
    let n = if only_large { 0 } else { ctx.tier.pick(700, 40000) };
    let run = |b: &[u8]| {
        let (p, _) = gen_program(b, &cfg);
        run_text(&tc, &emit_program(&p), vec![])
    };
    let out = drive(&mut ev, ctx.seed, 14, n, 100, 3000, 150, &run);
    if let Some((bytes, f)) = out.failure {
        eprintln!("{}", f.summary);
        report.violations.push(write_replay(ctx, "program", &bytes, &f));
    }
    if report.violations.is_empty() {
        let n2 = if only_large { 0 } else { ctx.tier.pick(300, 20000) };
        let run2 = |b: &[u8]| {
            let (p, _) = gen_program(b, &cfg);
            match adversarial_variant(&p) {
                Some((p2, name)) => run_text(&tc, &emit_program(&p2), vec![format!("adversarial definition name ({})", if name.starts_with("lift_") { "lift_*" } else { "share_*" })]),
                None => CaseResult::Discard("no generated label to imitate".into()),
            }
        };
        let out2 = drive(&mut ev, ctx.seed, 114, n2, 100, 3000, 150, &run2);
        if let Some((bytes, f)) = out2.failure {
            eprintln!("{}", f.summary);
            report.violations.push(write_replay(ctx, "adversarial", &bytes, &f));
        }
    }
    if report.violations.is_empty() {
        let n3 = if only_large { 0 } else { ctx.tier.pick(500, 40000) };
        let run3 = |b: &[u8]| {
            let arch = [Arch::X86, Arch::A64, Arch::Rv][b.first().copied().unwrap_or(0) as usize % 3];
            let c = decode_lin(&lin_cfg_for(ctx, arch), b);
            let asm = match pipeline::codegen(c.prog.clone(), arch) {
                Ok((a, _)) => a,
                Err(_) => return CaseResult::Discard("capacity".into()),
            };
            match check_asm(&tc, arch, &asm) {
                Ok(mut classes) => {
                    if c.gstats.big_literals > 0 {
                        classes.push("literal beyond 32 bits".into());
                    }
                    classes.push(format!("linear:{}", arch.name()));
                    CaseResult::Pass { nontrivial: c.gstats.big_literals > 0, hash: hash_str(&asm), classes, sample: None }
                }
                Err((kind, msg)) if kind == "infra" => CaseResult::Discard(format!("infra: {msg}")),
                Err((kind, msg)) => CaseResult::Fail(Failure {
                    kind,
                    summary: msg,
                    details: json!({"linearized": printer::Print::print_to_string(&c.prog, None), "arch": arch.name()}),
                }),
            }
        };
        let out3 = drive(&mut ev, ctx.seed, 214, n3, 60, 2500, 200, &run3);
        if let Some((bytes, f)) = out3.failure {
            eprintln!("{}", f.summary);
            report.violations.push(write_replay(ctx, "linear", &bytes, &f));
        }
    }
    if report.violations.is_empty() {
        large_phase(ctx, &tc, &mut ev, &mut report);
    }
    let infra: u64 = ev.discards.iter().filter(|(k, _)| k.starts_with("infra")).map(|(_, v)| *v).sum();
    if infra > 0 {
        report.infra_errors.push(format!("{infra} cases hit an infrastructure problem (see evidence)"));
    }
    finish(ctx, &ev, &report, start)
}

pub fn replay(ctx: &Ctx, sub: &str, bytes: &[u8], case: &serde_json::Value) -> CaseResult {
    let tc = Toolchain::new(ctx.scratch.clone());
    let cfg = cfg_for(ctx);
    if sub.starts_with("large") {
        let progs = large_programs(case["k"].as_u64().unwrap_or(1200) as usize);
        let i = (case["index"].as_u64().unwrap_or(0) as usize).min(progs.len() - 1);
        return large_case(&tc, &progs[i].0, &progs[i].1);
    }
    if sub.starts_with("linear") {
        let arch = [Arch::X86, Arch::A64, Arch::Rv][bytes.first().copied().unwrap_or(0) as usize % 3];
        let c = decode_lin(&lin_cfg_for(ctx, arch), bytes);
        let Ok((asm, _)) = pipeline::codegen(c.prog.clone(), arch) else { return CaseResult::Discard("capacity".into()) };
        return match check_asm(&tc, arch, &asm) {
            Ok(_) => CaseResult::Pass { nontrivial: false, hash: 0, classes: vec![], sample: None },
            Err((kind, msg)) => CaseResult::Fail(Failure { kind, summary: msg, details: json!({"linearized": printer::Print::print_to_string(&c.prog, None)}) }),
        };
    }
    let (p, _) = gen_program(bytes, &cfg);
    if sub.starts_with("adversarial") {
        return match adversarial_variant(&p) {
            Some((p2, _)) => run_text(&tc, &emit_program(&p2), vec![]),
            None => CaseResult::Discard("no generated label to imitate".into()),
        };
    }
    run_text(&tc, &emit_program(&p), vec![])
}

//! C15 — the type checker accepts exactly the well-typed programs.
//! Accept side: every program built well-typed by the generator is accepted.
//! Reject side: every single certainly-ill-typed edit of such a program is rejected with an error.

use super::common::*;
use crate::fun_ast::*;
use crate::gen_fun::{GenCfg, gen_program_with_args};
use crate::mutate_ty;
use crate::pipeline::{self, StageError};
use crate::runner::*;
use serde_json::json;
use std::time::Instant;

pub fn cfg_for(ctx: &Ctx) -> GenCfg {
    GenCfg { size: ctx.tier.pick(30, 50), max_defs: 4, max_main_params: 3, reuse: 90, ..GenCfg::default() }
}

pub fn decode(ctx: &Ctx, bytes: &[u8]) -> FunCase {
    let (prog, tuples, _gs) = gen_program_with_args(bytes, &cfg_for(ctx), 1, false);
    FunCase { prog, tuples }
}

pub fn accepts(text: &str) -> Result<(), StageError> {
    pipeline::parse(text).and_then(pipeline::check).map(|_| ())
}

pub fn run_accept(_ctx: &Ctx, prog: &Program, _t: &[Vec<i64>]) -> CaseResult {
    let text = emit_program(prog);
    match accepts(&text) {
        Ok(()) => {
            let poly = prog.types.iter().any(|t| !t.params.is_empty());
            let mut classes = program_classes(prog);
            if poly {
                classes.push("polymorphic declaration".into());
            }
            CaseResult::Pass { nontrivial: poly || prog.defs.len() > 1, hash: hash_str(&text), classes, sample: Some(json!({"source": text})) }
        }
        Err(StageError::Parse(e)) => CaseResult::Fail(Failure {
            kind: "parse".into(),
            summary: format!("a well-typed program is rejected by the parser: {}", &e[..e.len().min(200)]),
            details: json!({"source": text}),
        }),
        Err(StageError::Check(e)) => CaseResult::Fail(Failure {
            kind: "reject".into(),
            summary: format!("a well-typed program is rejected by the checker: {}", &e[..e.len().min(200)]),
            details: json!({"source": text}),
        }),
        Err(StageError::Panic { stage, msg }) => CaseResult::Fail(Failure {
            kind: "panic".into(),
            summary: format!("{stage} panics on a well-typed program: {msg}"),
            details: json!({"source": text}),
        }),
    }
}

/// all single ill-typed edits of one program; the first one that is accepted (or panics) fails
pub fn run_reject(_ctx: &Ctx, prog: &Program, _t: &[Vec<i64>]) -> CaseResult {
    let text = emit_program(prog);
    if accepts(&text).is_err() {
        return CaseResult::Discard("base program not accepted (accept side decides)".into());
    }
    let mutants = mutate_ty::all_mutants(prog);
    let mut classes: Vec<String> = vec![];
    let mut n = 0u64;
    for m in &mutants {
        let mtext = emit_program(&m.prog);
        match pipeline::parse(&mtext) {
            Err(StageError::Parse(_)) => {
                // the edit must stay parseable; count and skip
                classes.push("unparseable-mutant".into());
                continue;
            }
            Err(StageError::Panic { stage, msg }) => {
                return CaseResult::Fail(Failure {
                    kind: "panic".into(),
                    summary: format!("{stage} panics on a mutant ({}): {msg}", m.class),
                    details: json!({"source": mtext, "mutation": m.what}),
                });
            }
            Err(_) => unreachable!(),
            Ok(p) => match pipeline::check(p) {
                Err(StageError::Check(_)) => {
                    n += 1;
                    classes.push(format!("mut:{}", m.class));
                }
                Err(StageError::Panic { stage, msg }) => {
                    return CaseResult::Fail(Failure {
                        kind: format!("panic:{}", m.class),
                        summary: format!("{stage} panics instead of reporting an error (mutation {}: {}): {msg}", m.class, m.what),
                        details: json!({"source": mtext, "original": text, "mutation": m.what}),
                    });
                }
                Err(_) => unreachable!(),
                Ok(_) => {
                    return CaseResult::Fail(Failure {
                        kind: format!("accept:{}", m.class),
                        summary: format!("an ill-typed program is accepted (mutation {}: {})", m.class, m.what),
                        details: json!({"source": mtext, "original": text, "mutation": m.what}),
                    });
                }
            },
        }
    }
    classes.sort();
    classes.dedup();
    CaseResult::Pass {
        nontrivial: n >= 3,
        hash: hash_str(&text),
        classes,
        sample: mutants.first().map(|m| json!({"original": text, "mutation": m.what, "class": m.class, "mutant": emit_program(&m.prog)})),
    }
}

pub fn check(ctx: &Ctx) -> i32 {
    let start = Instant::now();
    let mut ev = Evidence::default();
    ev.rule = "accept side: every generated program (well-typed by construction: all constructs, polymorphic declarations instantiated at several types, shadowing, covariable parameters, required type arguments) must be accepted by parse_module + Program::check. reject side: for each accepted program every applicable single edit of 16 certainly-ill-typed classes (dropped/extra argument, integer <-> constructor argument, unbound variable/covariable, unknown definition/constructor/destructor/type, missing/extra/duplicated clause, wrong number of binders or type arguments, variable for covariable and vice versa, duplicate declaration/parameter, wrong annotated type) is emitted as text, must still parse and must be rejected with an error (not accepted, no panic). Non-trivial: accept: polymorphic declaration or >= 2 definitions; reject: >= 3 rejected mutants of the program; distinct by source hash.".into();
    ev.assumptions = vec!["each mutation class is ill-typed under any reading of the language (DESIGN.md C15)".into()];
    let mut report = Report { violations: vec![], infra_errors: vec![] };
    let n = ctx.tier.pick(3000, 300000);
    let run = |b: &[u8]| {
        let c = decode(ctx, b);
        run_accept(ctx, &c.prog, &c.tuples)
    };
    // only byte-level shrinking here: a structurally shrunk candidate is not well-typed by
    // construction, so its rejection would prove nothing
    let out = drive(&mut ev, ctx.seed, 15, n, 100, 3000, 4000, &run);
    if let Some((bytes, f)) = out.failure {
        let c = decode(ctx, &bytes);
        eprintln!("{}", f.summary);
        report.violations.push(write_replay_with(ctx, "accept", &bytes, &f, fun_case_json(&c)));
    } else {
        let n2 = ctx.tier.pick(800, 40000);
        let run2 = |b: &[u8]| {
            let c = decode(ctx, b);
            run_reject(ctx, &c.prog, &c.tuples)
        };
        let out2 = drive(&mut ev, ctx.seed, 115, n2, 100, 2000, 100, &run2);
        if let Some((bytes, f)) = out2.failure {
            let c = decode(ctx, &bytes);
            let (c2, f2) = shrink_fun_case(&c, &f, 1500, &|p, t| run_reject(ctx, p, t));
            eprintln!("{}", f2.summary);
            report.violations.push(write_replay_with(ctx, "reject", &bytes, &f2, fun_case_json(&c2)));
        }
    }
    finish(ctx, &ev, &report, start)
}

pub fn replay(ctx: &Ctx, sub: &str, bytes: &[u8], case: &serde_json::Value) -> CaseResult {
    let c = fun_case_from_json(case).unwrap_or_else(|| decode(ctx, bytes));
    if sub.starts_with("reject") { run_reject(ctx, &c.prog, &c.tuples) } else { run_accept(ctx, &c.prog, &c.tuples) }
}

//! C16 — formatting a program never changes it: parse -> print(width, indent) -> parse yields the
//! same tree, and printing again yields the same text.

use crate::choice::Chooser;
use crate::fun_ast::emit_program;
use crate::gen_fun::{GenCfg, gen_program};
use crate::gen_syntax::{SynCfg, SynGen, add_noise};
use crate::pipeline::{self, StageError};
use crate::runner::*;
use printer::{Print, PrintCfg};
use serde_json::json;
use std::time::Instant;

pub const KNOWN_D9: &str = "D9-zero-operand";

fn print_with(p: &fun::syntax::program::Program, width: usize, indent: isize) -> Result<String, String> {
    let cfg = PrintCfg { width, allow_linebreaks: true, latex: false, omit_decl_sep: false, indent };
    pipeline::guarded(|| p.print_to_string(Some(&cfg)))
}

/// the round trip on one source text with one configuration
pub fn round_trip(text: &str, width: usize, indent: isize) -> CaseResult {
    let fail = |kind: &str, summary: String, extra: serde_json::Value| {
        let mut d = json!({"source": text, "width": width, "indent": indent});
        if let (Some(o), Some(e)) = (d.as_object_mut(), extra.as_object()) {
            for (k, v) in e {
                o.insert(k.clone(), v.clone());
            }
        }
        CaseResult::Fail(Failure { kind: kind.into(), summary, details: d })
    };
    let p1 = match pipeline::parse(text) {
        Ok(p) => p,
        Err(StageError::Panic { msg, .. }) => return fail("panic", format!("parser panics: {msg}"), json!({})),
        Err(_) => return CaseResult::Discard("input does not parse".into()),
    };
    let t2 = match print_with(&p1, width, indent) {
        Ok(t) => t,
        Err(msg) => return fail("panic", format!("printer panics: {msg}"), json!({})),
    };
    let p2 = match pipeline::parse(&t2) {
        Ok(p) => p,
        Err(e) => {
            return fail(
                "unparsable",
                format!("formatted text (width {width}, indent {indent}) no longer parses: {}", &format!("{e}")[..120.min(format!("{e}").len())]),
                json!({"formatted": t2}),
            );
        }
    };
    if p1 != p2 {
        return fail(
            "changed",
            format!("formatting at width {width}, indent {indent} changes the syntax tree"),
            json!({"formatted": t2}),
        );
    }
    let t3 = match print_with(&p2, width, indent) {
        Ok(t) => t,
        Err(msg) => return fail("panic", format!("printer panics: {msg}"), json!({})),
    };
    if t3 != t2 {
        return fail("unstable", format!("formatting twice at width {width}, indent {indent} gives different text"), json!({"formatted": t2, "formatted_again": t3}));
    }
    let wide = print_with(&p1, 1_000_000, indent).unwrap_or_default();
    let mut classes = vec![];
    if wide != t2 {
        classes.push("line broken because of the width".to_string());
    }
    if width <= 20 {
        classes.push("width<=20".into());
    }
    if indent == 0 {
        classes.push("indent=0".into());
    }
    CaseResult::Pass {
        nontrivial: wide != t2,
        hash: hash_str(&format!("{text}{width}/{indent}")),
        classes,
        sample: Some(json!({"source": text, "width": width, "indent": indent, "formatted": t2})),
    }
}

fn configs(c: &mut Chooser) -> Vec<(usize, isize)> {
    (0..3)
        .map(|_| {
            let w = match c.weighted(&[30, 40, 30]) {
                0 => c.int_in(1, 20) as usize,
                1 => c.int_in(21, 100) as usize,
                _ => c.int_in(101, 200) as usize,
            };
            (w, c.int_in(0, 8) as isize)
        })
        .collect()
}

pub fn syntax_case(ctx: &Ctx, bytes: &[u8]) -> (String, Vec<(usize, isize)>) {
    let mut g = SynGen::new(bytes, SynCfg { size: ctx.tier.pick(24, 40), avoid_zero_operand: ctx.known_open(KNOWN_D9) });
    let cfgs = configs(&mut g.c);
    let noise = g.c.boolean();
    let p = g.program();
    let mut text = emit_program(&p);
    if noise {
        text = add_noise(&text, &mut g.c);
    }
    (text, cfgs)
}

pub fn typed_case(ctx: &Ctx, bytes: &[u8]) -> (String, Vec<(usize, isize)>) {
    let mut c = Chooser::new(bytes);
    let cfgs = configs(&mut c);
    let (p, _) = gen_program(&bytes[c.used().min(bytes.len())..], &GenCfg { size: ctx.tier.pick(30, 50), ..GenCfg::default() });
    (emit_program(&p), cfgs)
}

fn run_all(text: &str, cfgs: &[(usize, isize)]) -> CaseResult {
    let mut last = CaseResult::Discard("no configuration".into());
    let mut nontrivial = false;
    let mut all_classes = vec![];
    for (w, i) in cfgs {
        match round_trip(text, *w, *i) {
            f @ CaseResult::Fail(_) => return f,
            CaseResult::Pass { nontrivial: nt, hash, classes, sample } => {
                nontrivial |= nt;
                for c in classes {
                    if !all_classes.contains(&c) {
                        all_classes.push(c);
                    }
                }
                last = CaseResult::Pass { nontrivial, hash, classes: all_classes.clone(), sample };
            }
            d => {
                if matches!(last, CaseResult::Discard(_)) {
                    last = d;
                }
            }
        }
    }
    last
}

fn repo_files() -> Vec<std::path::PathBuf> {
    fn walk(d: &std::path::Path, out: &mut Vec<std::path::PathBuf>) {
        if let Ok(rd) = std::fs::read_dir(d) {
            let mut es: Vec<_> = rd.flatten().map(|e| e.path()).collect();
            es.sort();
            for p in es {
                if p.is_dir() {
                    walk(&p, out);
                } else if p.extension().is_some_and(|e| e == "sc") {
                    out.push(p);
                }
            }
        }
    }
    let mut out = vec![];
    for d in ["/repo/examples", "/repo/testsuite", "/repo/benchmarks"] {
        walk(std::path::Path::new(d), &mut out);
    }
    out
}

pub fn check(ctx: &Ctx) -> i32 {
    let start = Instant::now();
    let mut ev = Evidence::default();
    ev.rule = "inputs: (a) grammar-directed random programs (every term form in every operand position, explicit parentheses, negative literals, zero comparisons in both token orders, empty clause lists, type arguments, :cns bindings, comment/blank-line noise), (b) generated well-typed programs, (c) every .sc file of the repository; each with 3 configurations drawn from widths 1..200 and indents 0..8. Oracle: p1 = parse(text); t2 = print(p1, cfg); p2 = parse(t2) must succeed and equal p1 (spans ignored); print(p2, cfg) == t2. (d) a sample of (a) is written to a file and formatted with the real `scc fmt --width W --indent I`, either twice with `--inplace` (exit status 0, the file parses to the same tree, the second run leaves it unchanged) or with `-o` onto the file itself (same spelling, or `./name`) or to another file (the written file parses to the same tree, the input is untouched). Non-trivial: the printed text differs from the same tree printed at unlimited width (a line was broken because of the width); distinct by hash of (source, width, indent).".into();
    ev.assumptions = vec!["derived equality of fun::syntax::program::Program ignores spans only".into()];
    let mut report = Report { violations: vec![], infra_errors: vec![] };
    // known finding D9: replay the recorded inputs
    for k in ctx.known.iter().filter(|k| k.property == "C16" && k.status == "known") {
        if let Some(rp) = &k.replay {
            if let Ok(src) = std::fs::read_to_string(ctx.root.join(rp)) {
                if matches!(round_trip(&src, 80, 4), CaseResult::Fail(_)) {
                    println!("KNOWN-FINDING: property=C16 {}", k.what);
                    ev.known_printed.push(k.id.clone());
                }
            }
        }
    }
    let n = ctx.tier.pick(8000, 500000);
    let run = |b: &[u8]| {
        let (text, cfgs) = syntax_case(ctx, b);
        run_all(&text, &cfgs)
    };
    let out = drive(&mut ev, ctx.seed, 16, n, 40, 1500, 1500, &run);
    if let Some((bytes, f)) = out.failure {
        eprintln!("{}", f.summary);
        report.violations.push(write_replay(ctx, "syntax", &bytes, &f));
    } else {
        let n2 = ctx.tier.pick(1500, 100000);
        let run2 = |b: &[u8]| {
            let (text, cfgs) = typed_case(ctx, b);
            run_all(&text, &cfgs)
        };
        let out2 = drive(&mut ev, ctx.seed, 116, n2, 100, 3000, 1000, &run2);
        if let Some((bytes, f)) = out2.failure {
            eprintln!("{}", f.summary);
            report.violations.push(write_replay(ctx, "typed", &bytes, &f));
        }
        // repository files at a fixed set of configurations
        let mut files = 0;
        for f in repo_files() {
            let Ok(src) = std::fs::read_to_string(&f) else { continue };
            for (w, i) in [(1usize, 0isize), (20, 2), (40, 4), (80, 4), (100, 8), (200, 3)] {
                let r = round_trip(&src, w, i);
                if let CaseResult::Fail(fl) = &r {
                    if report.violations.is_empty() {
                        eprintln!("{}: {}", f.display(), fl.summary);
                        let mut fl = fl.clone();
                        fl.details["file"] = json!(f.display().to_string());
                        report.violations.push(write_replay_with(ctx, "file", &[], &fl, json!({"file": f.display().to_string(), "width": w, "indent": i})));
                    }
                }
                ev.absorb(&r);
            }
            files += 1;
        }
        ev.extra.insert("repository_files".into(), json!(files));
        // the real formatter in its in-place mode
        if report.violations.is_empty() {
            match super::cli::scc_exe(ctx) {
                None => report.infra_errors.push("the scc binary is not built (harness/target/scc); run ./check, not the harness directly".into()),
                Some(exe) => {
                    let n3 = ctx.tier.pick(300, 20000);
                    let run3 = |b: &[u8]| {
                        let (text, cfgs) = syntax_case(ctx, b);
                        let mode = b.last().copied().unwrap_or(0) as usize % 4;
                        super::cli::c16_cli_case_mode(ctx, &exe, &text, cfgs[0].0, cfgs[0].1, mode)
                    };
                    let out3 = drive(&mut ev, ctx.seed, 216, n3, 40, 1500, 60, &run3);
                    if let Some((bytes, f)) = out3.failure {
                        eprintln!("{}", f.summary);
                        report.violations.push(write_replay(ctx, "cli", &bytes, &f));
                    }
                }
            }
        }
        // coverage-guided campaign (thorough only)
        if ctx.tier == Tier::Thorough && report.violations.is_empty() {
            let mut seeds: Vec<Vec<u8>> = vec![];
            for b in buffers(ctx.seed, 516, 300, 40, 1500) {
                let (text, _) = syntax_case(ctx, &b);
                let mut v = vec![b.first().copied().unwrap_or(40), b.get(1).copied().unwrap_or(2)];
                v.extend_from_slice(text.as_bytes());
                seeds.push(v);
            }
            match crate::fuzzrun::campaign(ctx, "roundtrip", &seeds, 400_000, 900) {
                Err(e) => report.infra_errors.push(e),
                Ok(c) => {
                    ev.extra.insert("libfuzzer_executed_units".into(), json!(c.executed));
                    ev.evaluations += c.executed;
                    for a in &c.artifacts {
                        if a.len() < 3 {
                            continue;
                        }
                        let width = 1 + (a[0] as usize % 200);
                        let indent = (a[1] % 9) as isize;
                        let text = String::from_utf8_lossy(&a[2..]).into_owned();
                        let r = round_trip(&text, width, indent);
                        if let CaseResult::Fail(fl) = &r {
                            if report.violations.is_empty() {
                                eprintln!("libFuzzer artifact: {}", fl.summary);
                                report.violations.push(write_replay_with(ctx, "text", &[], fl, json!({"source": text, "width": width, "indent": indent})));
                            }
                        }
                    }
                }
            }
        }
    }
    finish(ctx, &ev, &report, start)
}

pub fn replay(ctx: &Ctx, sub: &str, bytes: &[u8], case: &serde_json::Value) -> CaseResult {
    if sub.starts_with("cli") {
        let Some(exe) = super::cli::scc_exe(ctx) else { return CaseResult::Discard("infra: scc binary not built".into()) };
        let (text, cfgs) = syntax_case(ctx, bytes);
        let mode = bytes.last().copied().unwrap_or(0) as usize % 4;
        return super::cli::c16_cli_case_mode(ctx, &exe, &text, cfgs[0].0, cfgs[0].1, mode);
    }
    if sub.starts_with("file") {
        let f = case["file"].as_str().unwrap_or("");
        let src = std::fs::read_to_string(f).unwrap_or_default();
        return round_trip(&src, case["width"].as_u64().unwrap_or(80) as usize, case["indent"].as_i64().unwrap_or(4) as isize);
    }
    if sub.starts_with("text") {
        let src = case["source"].as_str().unwrap_or("");
        return round_trip(src, case["width"].as_u64().unwrap_or(80) as usize, case["indent"].as_i64().unwrap_or(4) as isize);
    }
    let (text, cfgs) = if sub.starts_with("typed") { typed_case(ctx, bytes) } else { syntax_case(ctx, bytes) };
    run_all(&text, &cfgs)
}

//! C17 — compilation is deterministic: same text => byte-identical output at every printable
//! stage, across processes (hash seeds, environment, working directory) and, up to the numbering
//! of generated labels, across earlier compilations in the same process.

use crate::fun_ast::emit_program;
use crate::gen_fun::{GenCfg, gen_program};
use crate::pipeline::{self, Arch};
use crate::runner::*;
use printer::Print;
use serde_json::json;
use std::collections::HashMap;
use std::process::{Command, Stdio};
use std::time::Instant;

/// all printable stages of one source text, as one string
pub fn all_stages(text: &str) -> Result<String, String> {
    let parsed = pipeline::parse(text).map_err(|e| format!("{e}"))?;
    let checked = pipeline::check(parsed).map_err(|e| format!("{e}"))?;
    let core = pipeline::to_core(checked).map_err(|e| format!("{e}"))?;
    let mut out = String::new();
    out.push_str("==== core\n");
    out.push_str(&core.print_to_string(None));
    let uniq = pipeline::uniquify(core.clone()).map_err(|e| format!("{e}"))?;
    out.push_str("\n==== uniquified\n");
    out.push_str(&uniq.print_to_string(None));
    let focused = pipeline::focus(core).map_err(|e| format!("{e}"))?;
    out.push_str("\n==== focused\n");
    out.push_str(&focused.print_to_string(None));
    let shrunk = pipeline::shrink(focused).map_err(|e| format!("{e}"))?;
    out.push_str("\n==== axcut\n");
    out.push_str(&shrunk.print_to_string(None));
    let linear = pipeline::linearize(shrunk).map_err(|e| format!("{e}"))?;
    out.push_str("\n==== linearized\n");
    out.push_str(&linear.print_to_string(None));
    for arch in [Arch::X86, Arch::A64, Arch::Rv] {
        match pipeline::codegen(linear.clone(), arch) {
            Ok((asm, _)) => {
                out.push_str(&format!("\n==== asm {}\n", arch.name()));
                out.push_str(&asm);
            }
            Err(e) => out.push_str(&format!("\n==== asm {}: {e}\n", arch.name())),
        }
    }
    Ok(out)
}

/// renumber the generated label counters (`lab<n>`, `<Type>_<n>[_<Xtor>]`) by first occurrence
pub fn normalize_labels(text: &str) -> String {
    let mut map: HashMap<String, usize> = HashMap::new();
    let mut out = String::with_capacity(text.len());
    let mut tok = String::new();
    let flush = |tok: &mut String, out: &mut String, map: &mut HashMap<String, usize>| {
        if tok.is_empty() {
            return;
        }
        let t = std::mem::take(tok);
        let renum = |n: &str, map: &mut HashMap<String, usize>| -> String {
            let k = map.len();
            format!("#{}", *map.entry(n.to_string()).or_insert(k))
        };
        if let Some(d) = t.strip_prefix("lab") {
            if !d.is_empty() && d.chars().all(|c| c.is_ascii_digit()) {
                out.push_str("lab");
                out.push_str(&renum(d, map));
                return;
            }
        }
        if t.chars().next().is_some_and(|c| c.is_ascii_uppercase() || c == '_') && t.contains('_') {
            let segs: Vec<&str> = t.split('_').collect();
            if let Some(i) = segs.iter().rposition(|s| !s.is_empty() && s.chars().all(|c| c.is_ascii_digit())) {
                if i > 0 {
                    let mut v: Vec<String> = segs.iter().map(|s| s.to_string()).collect();
                    v[i] = renum(segs[i], map);
                    out.push_str(&v.join("_"));
                    return;
                }
            }
        }
        out.push_str(&t);
    };
    for c in text.chars() {
        if c.is_ascii_alphanumeric() || c == '_' {
            tok.push(c);
        } else {
            flush(&mut tok, &mut out, &mut map);
            out.push(c);
        }
    }
    flush(&mut tok, &mut out, &mut map);
    out
}

fn first_diff(a: &str, b: &str) -> String {
    for (i, (x, y)) in a.lines().zip(b.lines()).enumerate() {
        if x != y {
            return format!("line {}: `{}` vs `{}`", i + 1, x.trim(), y.trim());
        }
    }
    format!("lengths {} vs {}", a.len(), b.len())
}

pub fn cfg_for(ctx: &Ctx) -> GenCfg {
    GenCfg { size: ctx.tier.pick(30, 50), max_defs: 4, max_main_params: 3, ..GenCfg::default() }
}

fn instances(text: &str) -> usize {
    // rough count of distinct type instances mentioned in the source
    let mut set = std::collections::HashSet::new();
    let b: Vec<char> = text.chars().collect();
    let mut i = 0;
    while i < b.len() {
        if b[i].is_ascii_uppercase() && (i == 0 || !(b[i - 1].is_alphanumeric() || b[i - 1] == '_')) {
            let mut j = i;
            let mut depth = 0;
            while j < b.len() && (b[j].is_alphanumeric() || b[j] == '_' || b[j] == '[' || (depth > 0 && (b[j] == ',' || b[j] == ' ' || b[j] == ']'))) {
                if b[j] == '[' {
                    depth += 1;
                }
                if b[j] == ']' {
                    depth -= 1;
                }
                j += 1;
            }
            let t: String = b[i..j].iter().collect();
            if t.contains('[') {
                set.insert(t);
            }
            i = j.max(i + 1);
        } else {
            i += 1;
        }
    }
    set.len()
}

pub fn process_case(ctx: &Ctx, text: &str, k: usize, tag: u64) -> CaseResult {
    let exe = std::env::current_exe().expect("exe");
    let file = ctx.scratch.join(format!("det{tag}.sc"));
    if std::fs::write(&file, text).is_err() {
        return CaseResult::Discard("infra: cannot write scratch file".into());
    }
    let mut outputs: Vec<Vec<u8>> = vec![];
    for i in 0..k {
        let mut cmd = Command::new(&exe);
        cmd.arg("stage").arg("x").arg(&file).stdin(Stdio::null()).stderr(Stdio::null());
        // vary environment and working directory
        cmd.env("VERIF_ROOT", &ctx.root);
        match i % 4 {
            1 => {
                cmd.env("LANG", "C").env("FOO", "bar").current_dir("/");
            }
            2 => {
                cmd.env("RUST_BACKTRACE", "1").env("HOME", "/nonexistent");
            }
            3 => {
                cmd.env_remove("PATH").env("PATH", "/usr/bin:/bin").env("TZ", "Asia/Tokyo");
            }
            _ => {}
        }
        match cmd.output() {
            Ok(o) => outputs.push(o.stdout),
            Err(e) => return CaseResult::Discard(format!("infra: {e}")),
        }
    }
    let _ = std::fs::remove_file(&file);
    if outputs[0].is_empty() || outputs[0].starts_with(b"ERROR") {
        return CaseResult::Discard("program not accepted".into());
    }
    for (i, o) in outputs.iter().enumerate().skip(1) {
        if *o != outputs[0] {
            let a = String::from_utf8_lossy(&outputs[0]).into_owned();
            let b = String::from_utf8_lossy(o).into_owned();
            return CaseResult::Fail(Failure {
                kind: "process".into(),
                summary: format!("two processes print different output for the same source (run 0 vs run {i}): {}", first_diff(&a, &b)),
                details: json!({"source": text, "first_difference": first_diff(&a, &b)}),
            });
        }
    }
    let n = instances(text);
    CaseResult::Pass {
        nontrivial: n >= 3,
        hash: hash_str(text),
        classes: vec![format!("processes:{k}"), if n >= 3 { "type instances>=3".to_string() } else { "type instances<3".to_string() }],
        sample: Some(json!({"source": text, "processes": k})),
    }
}

/// the real binary: every printing subcommand three times with varied environment, and the
/// files written by `scc codegen` in two different working directories
pub fn binary_case(ctx: &Ctx, exe: &std::path::Path, text: &str, tag: u64) -> CaseResult {
    let file = ctx.scratch.join(format!("detbin{tag:016x}.sc"));
    if std::fs::write(&file, text).is_err() {
        return CaseResult::Discard("infra: cannot write scratch file".into());
    }
    let fail = |what: &str, a: &str, b: &str| {
        CaseResult::Fail(Failure {
            kind: "binary".into(),
            summary: format!("two runs of `scc {what}` on the same file differ: {}", first_diff(a, b)),
            details: json!({"source": text, "first_difference": first_diff(a, b)}),
        })
    };
    for sub in ["compile", "focus", "shrink", "linearize"] {
        let mut outs: Vec<String> = vec![];
        for i in 0..3 {
            let mut cmd = Command::new(exe);
            cmd.arg("-n").arg(sub).arg(&file).stdin(Stdio::null()).stderr(Stdio::null());
            match i {
                1 => {
                    cmd.env("LANG", "C").env("COLUMNS", "200").current_dir("/");
                }
                2 => {
                    cmd.env("HOME", "/nonexistent").env("TERM", "dumb").env("TZ", "Asia/Tokyo");
                }
                _ => {}
            }
            match cmd.output() {
                Ok(o) => {
                    if !o.status.success() {
                        let _ = std::fs::remove_file(&file);
                        return CaseResult::Discard("program not accepted".into());
                    }
                    outs.push(String::from_utf8_lossy(&o.stdout).into_owned());
                }
                Err(e) => return CaseResult::Discard(format!("infra: {e}")),
            }
        }
        for o in &outs[1..] {
            if *o != outs[0] {
                let _ = std::fs::remove_file(&file);
                return fail(sub, &outs[0], o);
            }
        }
    }
    // files written by the code generator (the x86-64 command stops at the missing assembler after
    // writing the assembly file)
    let mut classes = vec!["binary: printing subcommands x3".to_string()];
    for backend in ["rv64", "x86-64"] {
        let mut written: Vec<String> = vec![];
        for i in 0..2 {
            let dir = ctx.scratch.join(format!("detbin{tag:016x}_{backend}_{i}"));
            let _ = std::fs::create_dir_all(&dir);
            let mut cmd = Command::new(exe);
            cmd.arg("-n").arg("codegen").arg(&file).arg(backend).current_dir(&dir).stdin(Stdio::null()).stdout(Stdio::null()).stderr(Stdio::null());
            let _ = cmd.output();
            let mut all = String::new();
            let mut stack = vec![dir.clone()];
            let mut files = vec![];
            while let Some(d) = stack.pop() {
                if let Ok(rd) = std::fs::read_dir(&d) {
                    for e in rd.flatten() {
                        let p = e.path();
                        if p.is_dir() {
                            stack.push(p);
                        } else if p.extension().map_or(false, |x| x == "asm") {
                            files.push(p);
                        }
                    }
                }
            }
            files.sort();
            for f in files {
                all.push_str(&std::fs::read_to_string(&f).unwrap_or_default());
            }
            let _ = std::fs::remove_dir_all(&dir);
            written.push(all);
        }
        if written[0] != written[1] {
            let _ = std::fs::remove_file(&file);
            return fail(&format!("codegen {backend}"), &written[0], &written[1]);
        }
        if !written[0].is_empty() {
            classes.push(format!("binary: assembly file {backend}"));
        }
    }
    let _ = std::fs::remove_file(&file);
    let n = instances(text);
    CaseResult::Pass { nontrivial: n >= 3, hash: hash_str(text) ^ 0xb1, classes, sample: None }
}

fn collect_files(dir: &std::path::Path) -> std::collections::BTreeMap<String, Vec<u8>> {
    let mut out = std::collections::BTreeMap::new();
    let mut stack = vec![dir.to_path_buf()];
    while let Some(d) = stack.pop() {
        if let Ok(rd) = std::fs::read_dir(&d) {
            for e in rd.flatten() {
                let p = e.path();
                if p.is_dir() {
                    stack.push(p);
                } else if let Ok(rel) = p.strip_prefix(dir) {
                    // the copied runtime sources are not compiler output of the program
                    if !rel.starts_with("target_scc/infrastructure") && rel.starts_with("target_scc") {
                        out.insert(rel.display().to_string(), std::fs::read(&p).unwrap_or_default());
                    }
                }
            }
        }
    }
    out
}

/// the text with one digit of an integer literal changed (same length, still a valid program)
fn same_length_variant(text: &str) -> Option<String> {
    let b = text.as_bytes();
    for i in 0..b.len() {
        let c = b[i];
        if !(b'1'..=b'8').contains(&c) {
            continue;
        }
        // the first digit of a literal: not part of an identifier or of a longer number, and not
        // inside a comment line
        let prev = if i == 0 { b' ' } else { b[i - 1] };
        if prev.is_ascii_alphanumeric() || prev == b'_' {
            continue;
        }
        let line_start = text[..i].rfind('\n').map_or(0, |p| p + 1);
        if text[line_start..i].contains("//") {
            continue;
        }
        let mut v = b.to_vec();
        v[i] = c + 1;
        return String::from_utf8(v).ok();
    }
    None
}

/// the real binary, history in one working directory: `prev` is compiled first under the same
/// file name, then `text`; every file the tool writes for `text` must equal what it writes in a
/// fresh directory
pub fn binary_history_case(ctx: &Ctx, exe: &std::path::Path, prev: &str, text: &str, tag: u64) -> CaseResult {
    let run = |dir: &std::path::Path, src: &str| -> bool {
        if std::fs::write(dir.join("prog.sc"), src).is_err() {
            return false;
        }
        let mut ok = false;
        for backend in ["rv64", "x86-64"] {
            let mut cmd = Command::new(exe);
            cmd.arg("-n").arg("codegen").arg("prog.sc").arg(backend).arg("--print-ir").current_dir(dir).stdin(Stdio::null()).stdout(Stdio::null()).stderr(Stdio::null());
            if cmd.output().is_ok() {
                ok = true;
            }
        }
        ok
    };
    let fresh = ctx.scratch.join(format!("hist{tag:016x}_fresh"));
    let hist = ctx.scratch.join(format!("hist{tag:016x}_after"));
    let _ = std::fs::create_dir_all(&fresh);
    let _ = std::fs::create_dir_all(&hist);
    let ok = run(&fresh, text) && run(&hist, prev) && run(&hist, text);
    let a = collect_files(&fresh);
    let b = collect_files(&hist);
    // second history: two sources with the same file name in different directories, both older
    // than anything the tool writes (checked out / unpacked before the first compilation)
    let hist2 = ctx.scratch.join(format!("hist{tag:016x}_dirs"));
    let mut ok2 = true;
    for (sub, src) in [("a", prev), ("b", text)] {
        let d = hist2.join(sub);
        let _ = std::fs::create_dir_all(&d);
        let f = d.join("prog.sc");
        ok2 &= std::fs::write(&f, src).is_ok();
        if let Ok(h) = std::fs::File::options().write(true).open(&f) {
            let _ = h.set_modified(std::time::SystemTime::now() - std::time::Duration::from_secs(if sub == "a" { 3600 } else { 7200 }));
        }
    }
    for sub in ["a", "b"] {
        for backend in ["rv64", "x86-64"] {
            let mut cmd = Command::new(exe);
            cmd.arg("-n").arg("codegen").arg(format!("{sub}/prog.sc")).arg(backend).arg("--print-ir").current_dir(&hist2).stdin(Stdio::null()).stdout(Stdio::null()).stderr(Stdio::null());
            ok2 &= cmd.output().is_ok();
        }
    }
    let b2 = collect_files(&hist2);
    // third history: an edit that keeps the length of the file (one digit of a literal changed)
    // compiled first under the same path
    let mut b3 = None;
    if let Some(v) = same_length_variant(text) {
        let hist3 = ctx.scratch.join(format!("hist{tag:016x}_edit"));
        let _ = std::fs::create_dir_all(&hist3);
        if run(&hist3, &v) && run(&hist3, text) {
            b3 = Some((collect_files(&hist3), v));
        }
        let _ = std::fs::remove_dir_all(&hist3);
    }
    if let Some((b3, v)) = &b3 {
        for (name, content) in &a {
            match b3.get(name) {
                Some(c) if c == content => {}
                other => {
                    let x = String::from_utf8_lossy(content).into_owned();
                    let y = other.map(|c| String::from_utf8_lossy(c).into_owned()).unwrap_or_else(|| "<file missing>".into());
                    let _ = std::fs::remove_dir_all(&fresh);
                    let _ = std::fs::remove_dir_all(&hist);
                    let _ = std::fs::remove_dir_all(&hist2);
                    return CaseResult::Fail(Failure {
                        kind: "binary-history".into(),
                        summary: format!("`scc codegen --print-ir` writes a different {name} when the same file was compiled before with one digit of a literal different (same length): {}", first_diff(&x, &y)),
                        details: json!({"source": text, "compiled_before": v, "file": name, "scenario": "same path, same length, one digit edited"}),
                    });
                }
            }
        }
    }
    let _ = std::fs::remove_dir_all(&fresh);
    let _ = std::fs::remove_dir_all(&hist);
    let _ = std::fs::remove_dir_all(&hist2);
    if ok && ok2 {
        for (name, content) in &a {
            match b2.get(name) {
                Some(c) if c == content => {}
                other => {
                    let x = String::from_utf8_lossy(content).into_owned();
                    let y = other.map(|c| String::from_utf8_lossy(c).into_owned()).unwrap_or_else(|| "<file missing>".into());
                    return CaseResult::Fail(Failure {
                        kind: "binary-history".into(),
                        summary: format!("`scc codegen b/prog.sc` writes a different {name} when a/prog.sc (another program, same file name; both sources older than the first output) was compiled before in the same working directory: {}", first_diff(&x, &y)),
                        details: json!({"source": text, "compiled_before": prev, "file": name, "scenario": "same file name in two directories, old modification times"}),
                    });
                }
            }
        }
    }
    if !ok {
        return CaseResult::Discard("infra: cannot run scc".into());
    }
    if a.is_empty() {
        return CaseResult::Discard("program not accepted".into());
    }
    for (name, content) in &a {
        match b.get(name) {
            Some(c) if c == content => {}
            other => {
                let x = String::from_utf8_lossy(content).into_owned();
                let y = other.map(|c| String::from_utf8_lossy(c).into_owned()).unwrap_or_else(|| "<file missing>".into());
                return CaseResult::Fail(Failure {
                    kind: "binary-history".into(),
                    summary: format!("`scc codegen` writes a different {name} when another program was compiled before under the same file name in the same directory: {}", first_diff(&x, &y)),
                    details: json!({"source": text, "compiled_before": prev, "file": name}),
                });
            }
        }
    }
    CaseResult::Pass {
        nontrivial: prev.len() > text.len(),
        hash: hash_str(text) ^ hash_str(prev),
        classes: vec![format!("binary: history, {} files", a.len()), if prev.len() > text.len() { "binary: earlier program larger".into() } else { "binary: earlier program smaller".into() }],
        sample: None,
    }
}

pub fn history_case(texts: &[String]) -> CaseResult {
    // compile the last text alone (twice) and after the others: equal up to label numbering
    let Some(last) = texts.last() else { return CaseResult::Discard("empty".into()) };
    let alone1 = match all_stages(last) {
        Ok(s) => s,
        Err(_) => return CaseResult::Discard("program not accepted".into()),
    };
    let alone2 = all_stages(last).unwrap_or_default();
    for t in &texts[..texts.len() - 1] {
        let _ = all_stages(t);
    }
    let after = all_stages(last).unwrap_or_default();
    let n1 = normalize_labels(&alone1);
    for (what, other) in [("compiled twice in one process", &alone2), ("compiled after other programs in one process", &after)] {
        let n2 = normalize_labels(other);
        if n1 != n2 {
            return CaseResult::Fail(Failure {
                kind: "history".into(),
                summary: format!("output differs beyond label numbering when {what}: {}", first_diff(&n1, &n2)),
                details: json!({"source": last, "earlier": &texts[..texts.len() - 1]}),
            });
        }
    }
    CaseResult::Pass {
        nontrivial: texts.len() >= 2,
        hash: hash_str(&texts.join("\u{1}")),
        classes: vec![format!("history length {}", texts.len())],
        sample: None,
    }
}

pub fn check(ctx: &Ctx) -> i32 {
    let start = Instant::now();
    let mut ev = Evidence::default();
    let k = ctx.tier.pick(8, 32);
    ev.rule = format!("(a) each generated program is compiled in {k} fresh processes (`sccv stage`, i.e. the repository's library stages; each process draws fresh hash seeds; environment variables and working directory varied) and the concatenation of printed Core, uniquified Core, focused Core, AxCut, linearized AxCut and the assembly of all three backends must be byte-identical; (b) histories: a program is compiled alone, twice, and after 1..3 other programs in one process; all outputs must be identical after renumbering the generated label counters (lab<n>, <Type>_<n>) by first occurrence. Non-trivial: (a) >= 3 polymorphic type instances in the source (hash order can matter), (b) history length >= 2; distinct by source hash. (c) the real `scc` binary: `compile`, `focus`, `shrink`, `linearize` three times each with varied environment and working directory must print identical text, and the assembly files written by `scc codegen rv64|x86-64` in two different working directories must be identical; and every file written by `scc codegen --print-ir` for a program must be the same in a fresh directory and in a directory where another program was compiled before under the same file name (the same path overwritten by an unrelated program, the same path after a same-length edit of one literal digit, and `a/prog.sc` then `b/prog.sc` with both sources older than the first output). Hash seeds cannot be chosen: processes sample them.");
    ev.assumptions = vec!["(a) and (b) call the library functions the CLI calls; (c) runs the binary built from the same tree".into()];
    let cfg = cfg_for(ctx);
    let mut report = Report { violations: vec![], infra_errors: vec![] };
    let n = ctx.tier.pick(150, 2000);
    let run = |b: &[u8]| {
        let (p, _) = gen_program(b, &cfg);
        let text = emit_program(&p);
        process_case(ctx, &text, k, hash_str(&text))
    };
    let out = drive(&mut ev, ctx.seed, 17, n, 200, 3000, 30, &run);
    if let Some((bytes, f)) = out.failure {
        eprintln!("{}", f.summary);
        report.violations.push(write_replay(ctx, "process", &bytes, &f));
    }
    if report.violations.is_empty() {
        let n2 = ctx.tier.pick(400, 8000);
        let run2 = |b: &[u8]| {
            let parts = 1 + (b.first().copied().unwrap_or(0) as usize % 4);
            let chunk = (b.len() / parts).max(1);
            let texts: Vec<String> = b.chunks(chunk).take(parts).map(|c| emit_program(&gen_program(c, &cfg).0)).collect();
            history_case(&texts)
        };
        let out2 = drive(&mut ev, ctx.seed, 117, n2, 200, 4000, 60, &run2);
        if let Some((bytes, f)) = out2.failure {
            eprintln!("{}", f.summary);
            report.violations.push(write_replay(ctx, "history", &bytes, &f));
        }
    }
    // (c) the real binary
    if report.violations.is_empty() {
        if let Some(exe) = super::cli::scc_exe(ctx) {
            let n3 = ctx.tier.pick(60, 1500);
            let run3 = |b: &[u8]| {
                let (p, _) = gen_program(b, &cfg);
                let text = emit_program(&p);
                binary_case(ctx, &exe, &text, hash_str(&text))
            };
            let out3 = drive(&mut ev, ctx.seed, 217, n3, 200, 3000, 20, &run3);
            if let Some((bytes, f)) = out3.failure {
                eprintln!("{}", f.summary);
                report.violations.push(write_replay(ctx, "binary", &bytes, &f));
            }
            if report.violations.is_empty() {
                let n4 = ctx.tier.pick(60, 1500);
                let run4 = |b: &[u8]| {
                    let half = b.len() / 2;
                    let prev = emit_program(&gen_program(&b[..half], &cfg).0);
                    let text = emit_program(&gen_program(&b[half..], &cfg).0);
                    binary_history_case(ctx, &exe, &prev, &text, hash_str(&text) ^ hash_str(&prev))
                };
                let out4 = drive(&mut ev, ctx.seed, 317, n4, 300, 4000, 20, &run4);
                if let Some((bytes, f)) = out4.failure {
                    eprintln!("{}", f.summary);
                    report.violations.push(write_replay(ctx, "binhist", &bytes, &f));
                }
            }
        } else {
            report.infra_errors.push("the scc binary is not built (harness/target/scc); run ./check, not the harness directly".into());
        }
    }
    let infra: u64 = ev.discards.iter().filter(|(k, _)| k.starts_with("infra")).map(|(_, v)| *v).sum();
    if infra > 0 {
        report.infra_errors.push(format!("{infra} cases hit an infrastructure problem (see evidence)"));
    }
    finish(ctx, &ev, &report, start)
}

pub fn replay(ctx: &Ctx, sub: &str, bytes: &[u8], _case: &serde_json::Value) -> CaseResult {
    let cfg = cfg_for(ctx);
    if sub.starts_with("binhist") {
        let Some(exe) = super::cli::scc_exe(ctx) else { return CaseResult::Discard("infra: scc binary not built".into()) };
        let half = bytes.len() / 2;
        let prev = emit_program(&gen_program(&bytes[..half], &cfg).0);
        let text = emit_program(&gen_program(&bytes[half..], &cfg).0);
        return binary_history_case(ctx, &exe, &prev, &text, hash_str(&text) ^ hash_str(&prev));
    }
    if sub.starts_with("binary") {
        let Some(exe) = super::cli::scc_exe(ctx) else { return CaseResult::Discard("infra: scc binary not built".into()) };
        let (p, _) = gen_program(bytes, &cfg);
        let text = emit_program(&p);
        return binary_case(ctx, &exe, &text, hash_str(&text));
    }
    if sub.starts_with("history") {
        let parts = 1 + (bytes.first().copied().unwrap_or(0) as usize % 4);
        let chunk = (bytes.len() / parts).max(1);
        let texts: Vec<String> = bytes.chunks(chunk).take(parts).map(|c| emit_program(&gen_program(c, &cfg).0)).collect();
        return history_case(&texts);
    }
    let (p, _) = gen_program(bytes, &cfg);
    let text = emit_program(&p);
    process_case(ctx, &text, 32, 1)
}

//! C18 — any input yields a result or a diagnostic, never a crash.

use crate::choice::Chooser;
use crate::fun_ast::emit_program;
use crate::gen_fun::{GenCfg, gen_program};
use crate::gen_syntax::{SynCfg, SynGen};
use crate::pipeline::{self, Arch, StageError};
use crate::runner::*;
use serde_json::json;
use std::time::Instant;

const VOCAB: [&str; 64] = [
    "(", ")", "{", "}", "[", "]", ";", "=>", ",", ":", ": cns", ":cns", ".", "=", "==", "!=", "<", "<=", ">", ">=",
    "== 0", "0 ==", "!= 0", "< 0", "0 <", ">= 0", "+", "*", "-", "/", "%", "label", "goto", "exit", "if", "else",
    "print_i64", "println_i64", "let", "case", "new", "def", "data", "codata", "i64", "main", "x", "f", "k", "Nil",
    "Cons", "List", "A", "0", "1", "-1", "9223372036854775807", "9223372036854775808", "18446744073709551616",
    "99999999999999999999999999", "//c\n", "\n", " ", "_Cont",
];

fn tokenize(s: &str) -> Vec<String> {
    let mut out = vec![];
    let b: Vec<char> = s.chars().collect();
    let mut i = 0;
    while i < b.len() {
        let c = b[i];
        if c.is_whitespace() {
            i += 1;
            continue;
        }
        if c.is_alphanumeric() || c == '_' {
            let mut j = i;
            while j < b.len() && (b[j].is_alphanumeric() || b[j] == '_') {
                j += 1;
            }
            out.push(b[i..j].iter().collect());
            i = j;
        } else {
            // two-character symbols
            if i + 1 < b.len() {
                let two: String = b[i..i + 2].iter().collect();
                if ["=>", "==", "!=", "<=", ">=", "//"].contains(&two.as_str()) {
                    out.push(two);
                    i += 2;
                    continue;
                }
            }
            out.push(c.to_string());
            i += 1;
        }
    }
    out
}

pub fn mutated_input(ctx: &Ctx, bytes: &[u8]) -> (String, &'static str) {
    let mut c = Chooser::new(bytes);
    let kind = c.weighted(&[30, 18, 8, 6, 8, 5, 25, 9]);
    // base program
    let base_len = (bytes.len() * 2 / 3).max(1).min(bytes.len());
    let base = if c.boolean() {
        let (p, _) = gen_program(&bytes[bytes.len() - base_len..], &GenCfg { size: ctx.tier.pick(20, 40), max_defs: 2, max_main_params: 7, adversarial: true, ..GenCfg::default() });
        emit_program(&p)
    } else {
        let mut g = SynGen::new(&bytes[bytes.len() - base_len..], SynCfg { size: ctx.tier.pick(16, 30), avoid_zero_operand: false });
        emit_program(&g.program())
    };
    match kind {
        0 => {
            // token-level edits
            let mut toks = tokenize(&base);
            let n = 1 + c.choose(4);
            for _ in 0..n {
                if toks.is_empty() {
                    break;
                }
                let i = c.choose(toks.len());
                match c.choose(4) {
                    0 => {
                        toks.remove(i);
                    }
                    1 => toks.insert(i, VOCAB[c.choose(VOCAB.len())].to_string()),
                    2 => toks[i] = VOCAB[c.choose(VOCAB.len())].to_string(),
                    _ => {
                        let j = c.choose(toks.len());
                        toks.swap(i, j);
                    }
                }
            }
            (toks.join(" "), "token-mutation")
        }
        1 => {
            // byte-level edits
            let mut b = base.into_bytes();
            let n = 1 + c.choose(5);
            for _ in 0..n {
                if b.is_empty() {
                    break;
                }
                let i = c.choose(b.len());
                match c.choose(3) {
                    0 => {
                        b.remove(i);
                    }
                    1 => b.insert(i, c.byte()),
                    _ => b[i] = c.byte(),
                }
            }
            (String::from_utf8_lossy(&b).into_owned(), "byte-mutation")
        }
        2 => {
            // extreme literal somewhere
            let toks = tokenize(&base);
            let lits = ["9223372036854775808", "-9223372036854775808", "18446744073709551615", "340282366920938463463374607431768211456", "00", "0x10", "1_000", "9223372036854775807"];
            let lit = lits[c.choose(lits.len())];
            let mut out = vec![];
            let mut done = false;
            let pick = c.choose(toks.len().max(1));
            for (i, t) in toks.iter().enumerate() {
                if !done && i >= pick && t.chars().all(|ch| ch.is_ascii_digit()) {
                    out.push(lit.to_string());
                    done = true;
                } else {
                    out.push(t.clone());
                }
            }
            if !done {
                return (format!("def main(): i64 {{ {lit} }}"), "extreme-literal");
            }
            (out.join(" "), "extreme-literal")
        }
        3 => {
            // deep nesting (bounded: the front end is recursive)
            let depth = 10 + c.choose(ctx.tier.pick(120, 250));
            let (open, close) = [("(", ")"), ("label k { ", " }"), ("exit ", ""), ("1 + (", ")"), ("Cons(1, ", ")")][c.choose(5)];
            let mut s = String::from("def main(): i64 { ");
            for _ in 0..depth {
                s.push_str(open);
            }
            s.push('0');
            for _ in 0..depth {
                s.push_str(close);
            }
            s.push_str(" }");
            (s, "deep-nesting")
        }
        4 => {
            // entry point variations
            let n = c.choose(8);
            let params: Vec<String> = (0..n)
                .map(|i| {
                    if c.prob(40) {
                        format!("p{i}: List[i64]")
                    } else if c.prob(20) {
                        format!("p{i} :cns i64")
                    } else {
                        format!("p{i}: i64")
                    }
                })
                .collect();
            let ret = if c.prob(50) { "List[i64]" } else { "i64" };
            let body = if ret == "i64" { if n > 0 && !params[0].contains("List") && !params[0].contains("cns") { "p0" } else { "0" } } else { "Nil" };
            let name = if c.prob(40) { "mainx" } else { "main" };
            (
                format!("data List[A] {{ Nil, Cons(x: A, xs: List[A]) }}\ndef {name}({}): {ret} {{ {body} }}\n", params.join(", ")),
                "entry-variation",
            )
        }
        5 => (base, "unmodified"),
        7 => {
            // one long or exotic token inserted or substituted: a compound token (`: cns`, `== 0`,
            // `0 <=`) whose inner whitespace is a run of non-ASCII white space, a very long
            // identifier or number, a run of multi-byte characters
            let ws = ["\u{a0}", "\u{2003}", "\u{3000}", "\u{2028}", "\t", " ", "\u{1680}"];
            let run = |c: &mut Chooser, n: usize| -> String {
                let w = ws[c.choose(ws.len())];
                let mut s = String::new();
                for i in 0..n {
                    s.push_str(if i % 5 == 4 { ws[c.choose(ws.len())] } else { w });
                }
                s
            };
            let n = 1 + c.choose(48);
            let tok = match c.choose(8) {
                0 => format!(":{}cns", run(&mut c, n)),
                1 => format!("=={}0", run(&mut c, n)),
                2 => format!("0{}<=", run(&mut c, n)),
                3 => format!("!={}0", run(&mut c, n)),
                4 => format!("x{}", "y".repeat(20 + 10 * n)),
                5 => "7".repeat(10 + 3 * n),
                6 => "\u{3bb}".repeat(n),
                _ => format!("0{}>", run(&mut c, n)),
            };
            let mut toks = tokenize(&base);
            if toks.is_empty() {
                return (tok, "exotic-token");
            }
            let i = c.choose(toks.len());
            if c.boolean() {
                toks.insert(i, tok);
            } else {
                toks[i] = tok;
            }
            (toks.join(" "), "exotic-token")
        }
        _ => {
            // random syntax trees: always parse, almost never type-check (stress for the checker),
            // sometimes with one typed definition mixed in
            let mut g = SynGen::new(&bytes[bytes.len() - base_len..], SynCfg { size: ctx.tier.pick(16, 30), avoid_zero_operand: false });
            let mut text = emit_program(&g.program());
            if c.boolean() {
                let ms = crate::mutate_ty::all_mutants(&gen_program(&bytes[bytes.len() - base_len..], &GenCfg { size: 20, max_defs: 2, ..GenCfg::default() }).0);
                if !ms.is_empty() {
                    text = emit_program(&ms[c.choose(ms.len())].prog);
                }
            }
            (text, "parseable-ill-typed")
        }
    }
}

pub fn valid_entry(p: &fun::syntax::program::CheckedProgram) -> bool {
    use fun::syntax::context::Chirality;
    use fun::syntax::types::Ty;
    p.defs.iter().any(|d| {
        d.name == "main"
            && d.context.bindings.len() <= 5
            && d.context.bindings.iter().all(|b| b.chi == Chirality::Prd && matches!(b.ty, Ty::I64 { .. }))
            && matches!(d.ret_ty, Ty::I64 { .. })
    })
}

pub fn run_text(text: &str, kind: &str) -> CaseResult {
    let fail = |summary: String| CaseResult::Fail(Failure { kind: "panic".into(), summary, details: json!({"source": text, "input_kind": kind}) });
    let mut classes = vec![kind.to_string()];
    let parsed = match pipeline::parse(text) {
        Ok(p) => p,
        Err(StageError::Panic { msg, .. }) => return fail(format!("the parser panics: {msg}")),
        Err(_) => {
            classes.push("parse error reported".into());
            return CaseResult::Pass { nontrivial: false, hash: hash_str(text), classes, sample: None };
        }
    };
    classes.push("parses".into());
    let checked = match pipeline::check(parsed) {
        Ok(c) => c,
        Err(StageError::Panic { msg, .. }) => return fail(format!("the type checker panics: {msg}")),
        Err(_) => {
            classes.push("type error reported".into());
            return CaseResult::Pass { nontrivial: true, hash: hash_str(text), classes, sample: Some(json!({"source": text, "kind": kind, "result": "type error"})) };
        }
    };
    classes.push("accepted".into());
    if !valid_entry(&checked) {
        classes.push("no valid entry point".into());
        return CaseResult::Pass { nontrivial: true, hash: hash_str(text), classes, sample: None };
    }
    let staged = pipeline::to_core(checked)
        .and_then(pipeline::focus)
        .and_then(pipeline::shrink)
        .and_then(pipeline::linearize);
    let linear = match staged {
        Ok(l) => l,
        Err(StageError::Panic { stage, msg }) => {
            if pipeline::is_capacity_panic(&msg) {
                classes.push("capacity".into());
                return CaseResult::Pass { nontrivial: true, hash: hash_str(text), classes, sample: None };
            }
            return fail(format!("{stage} panics on an accepted program: {msg}"));
        }
        Err(_) => unreachable!(),
    };
    for arch in [Arch::X86, Arch::A64, Arch::Rv] {
        match pipeline::codegen(linear.clone(), arch) {
            Ok(_) => {}
            Err(StageError::Panic { msg, .. }) if pipeline::is_capacity_panic(&msg) => classes.push("capacity".into()),
            // the RISC-V backend documents `print` as not implemented
            Err(StageError::Panic { msg, .. }) if arch == Arch::Rv && msg.contains("not implemented in RISC-V backend") => {}
            Err(e) => return fail(format!("{}: {e}", arch.name())),
        }
    }
    classes.push("all stages".into());
    CaseResult::Pass { nontrivial: true, hash: hash_str(text), classes, sample: Some(json!({"source": text, "kind": kind, "result": "compiled"})) }
}

// ------------------------------------------------------------------------------------------
// declaration stress: polymorphic (co)data declarations whose fields mention declared types at
// arbitrary type arguments (non-regular and mutual recursion included), used by a small
// well-formed program.  Every text is compiled in a child process, so that an abort or a stack
// exhaustion on a *small* input (no deep nesting) is observed instead of killing the check.
// ------------------------------------------------------------------------------------------

struct SDecl {
    name: String,
    params: usize,
    codata: bool,
}

fn texpr(c: &mut Chooser, decls: &[SDecl], params: usize, depth: usize) -> String {
    let w_decl = if depth == 0 || decls.is_empty() { 0 } else { 55 };
    match c.weighted(&[20, if params > 0 { 30 } else { 0 }, w_decl]) {
        0 => "i64".into(),
        1 => ["A", "B"][c.choose(params)].into(),
        _ => {
            let d = &decls[c.choose(decls.len())];
            if d.params == 0 {
                d.name.clone()
            } else {
                let args: Vec<String> = (0..d.params).map(|_| texpr(c, decls, params, depth - 1)).collect();
                format!("{}[{}]", d.name, args.join(", "))
            }
        }
    }
}

pub fn decl_stress(bytes: &[u8]) -> String {
    let mut c = Chooser::new(bytes);
    let nd = 1 + c.weighted(&[30, 40, 20, 10]);
    let nc = c.weighted(&[40, 40, 20]);
    let mut decls = vec![];
    for i in 0..nd {
        decls.push(SDecl { name: format!("D{i}"), params: c.weighted(&[15, 55, 30]), codata: false });
    }
    for i in 0..nc {
        decls.push(SDecl { name: format!("C{i}"), params: c.weighted(&[15, 55, 30]), codata: true });
    }
    let plist = |n: usize| match n {
        0 => String::new(),
        1 => "[A]".to_string(),
        _ => "[A, B]".to_string(),
    };
    let ilist = |n: usize| match n {
        0 => String::new(),
        1 => "[i64]".to_string(),
        _ => "[i64, i64]".to_string(),
    };
    let mut out = String::new();
    let mut uses = vec![];
    for (i, d) in decls.iter().enumerate() {
        // a declaration without any xtor is accepted by the parser and the checker; a term of such a
        // type can still be bound, passed and returned (an empty match is rejected, T-009)
        if c.prob(36) {
            let (tn, ti) = (format!("{}{}", d.name, plist(d.params)), format!("{}{}", d.name, ilist(d.params)));
            out.push_str(&format!("{} {} {{ }}\n", if d.codata { "codata" } else { "data" }, tn));
            if d.codata {
                out.push_str(&format!("def mk{i}(n: i64): {ti} {{ new {{ }} }}\n"));
            } else {
                out.push_str(&format!("def mk{i}(n: i64): {ti} {{ exit n }}\n"));
            }
            out.push_str(&format!("def use{i}(x: {ti}, n: i64): i64 {{ n }}\n"));
            let value = if d.codata { "new { }".to_string() } else { format!("mk{i}(3)") };
            uses.push(match c.weighted(&[20, 20, 20, 20, 20]) {
                0 => format!("use{i}(mk{i}(1), 2)"),
                1 => format!("(let v{i}: {ti} = mk{i}(1); use{i}(v{i}, 2))"),
                2 => format!("(let v{i}: {ti} = if 1 == 1 {{ {value} }} else {{ mk{i}(2) }}; use{i}(v{i}, 2))"),
                3 => format!("(let v{i}: {ti} = label a{i} {{ {value} }}; 4)"),
                _ => format!("use{i}(if 2 < 1 {{ mk{i}(5) }} else {{ {value} }}, 6)"),
            });
            continue;
        }
        if !d.codata {
            let nx = c.weighted(&[20, 50, 30]);
            let mut xtors = vec![format!("N{i}")];
            let mut clauses = vec![format!("N{i} => 0")];
            for x in 0..nx {
                let nf = 1 + c.weighted(&[55, 35, 10]);
                let fields: Vec<String> = (0..nf).map(|f| format!("f{f}: {}", texpr(&mut c, &decls, d.params, 3))).collect();
                xtors.push(format!("K{i}_{x}({})", fields.join(", ")));
                let bs: Vec<String> = (0..nf).map(|f| format!("b{f}")).collect();
                clauses.push(format!("K{i}_{x}({}) => {}", bs.join(", "), x + 1));
            }
            out.push_str(&format!("data {}{} {{ {} }}\n", d.name, plist(d.params), xtors.join(", ")));
            out.push_str(&format!(
                "def use{i}(x: {}{}): i64 {{ x.case{} {{ {} }} }}\n",
                d.name,
                ilist(d.params),
                ilist(d.params),
                clauses.join(", ")
            ));
            uses.push(format!("use{i}(N{i})"));
        } else {
            let nx = 1 + c.weighted(&[50, 35, 15]);
            let mut dtors = vec![format!("v{i}: i64")];
            for x in 0..nx {
                dtors.push(format!("d{i}_{x}: {}", texpr(&mut c, &decls, d.params, 3)));
            }
            out.push_str(&format!("codata {}{} {{ {} }}\n", d.name, plist(d.params), dtors.join(", ")));
            out.push_str(&format!("def obs{i}(x: {}{}): i64 {{ x.v{i}{} }}\n", d.name, ilist(d.params), ilist(d.params)));
        }
    }
    if uses.is_empty() {
        uses.push("0".into());
    }
    out.push_str(&format!("def main(): i64 {{ {} }}\n", uses.join(" + ")));
    out
}

/// entry of the child process (`sccv compile1 x <file>`): exit status 0 = handled, 3 = the harness
/// oracle failed (message on stdout); anything else is the compiler dying
pub fn child_main(file: &str) -> i32 {
    let text = std::fs::read_to_string(file).unwrap_or_default();
    // Rust's default thread stack (the one the repository's own tests run on): these inputs are not deeply nested
    let h = std::thread::Builder::new().stack_size(2 << 20).spawn(move || run_text(&text, "declaration stress"));
    match h.map(|h| h.join()) {
        Ok(Ok(CaseResult::Fail(f))) => {
            println!("FAIL {}", f.summary);
            3
        }
        Ok(Ok(CaseResult::Pass { classes, .. })) => {
            println!("CLASSES {}", classes.join("|"));
            0
        }
        Ok(Ok(_)) => 0,
        _ => {
            println!("FAIL worker thread died");
            3
        }
    }
}

pub fn run_in_child(ctx: &Ctx, text: &str) -> CaseResult {
    let file = ctx.scratch.join(format!("c18_{:016x}.sc", hash_str(text)));
    if std::fs::write(&file, text).is_err() {
        return CaseResult::Discard("infra: cannot write scratch file".into());
    }
    let exe = std::env::current_exe().expect("exe");
    // address-space cap: a runaway child must not take the machine down
    let script = format!("ulimit -v 6000000; exec '{}' compile1 x '{}'", exe.display(), file.display());
    let args = vec!["-c".to_string(), script];
    let r = crate::native::run_with_timeout(std::path::Path::new("/bin/sh"), &args, std::time::Duration::from_secs(ctx.tier.pick(60, 180)));
    let _ = std::fs::remove_file(&file);
    let fail = |kind: &str, summary: String| CaseResult::Fail(Failure { kind: kind.into(), summary, details: json!({"source": text, "input_kind": "declaration stress"}) });
    match r {
        Err(e) => CaseResult::Discard(format!("infra: cannot start the child process: {e}")),
        Ok(r) if r.timed_out => CaseResult::Discard("infra: child process exceeded its time budget (inconclusive)".into()),
        Ok(r) => {
            let out = String::from_utf8_lossy(&r.stdout).into_owned();
            match (r.code, r.signal) {
                (Some(0), _) => {
                    let classes: Vec<String> = out
                        .lines()
                        .find_map(|l| l.strip_prefix("CLASSES "))
                        .map(|l| l.split('|').map(|s| s.to_string()).collect())
                        .unwrap_or_default();
                    let accepted = classes.iter().any(|c| c == "accepted");
                    CaseResult::Pass { nontrivial: accepted, hash: hash_str(text), classes, sample: Some(json!({"source": text})) }
                }
                (Some(3), _) => fail("panic", out.lines().find_map(|l| l.strip_prefix("FAIL ")).unwrap_or("oracle failed").to_string()),
                (code, sig) => {
                    let err = String::from_utf8_lossy(&r.stderr);
                    let last = err.lines().rev().find(|l| !l.trim().is_empty()).unwrap_or("").to_string();
                    if err.contains("memory allocation of") {
                        return CaseResult::Discard("infra: child process exceeded its memory budget (inconclusive)".into());
                    }
                    fail(
                        "abort",
                        format!("the compiler process dies on a {}-byte input without deep nesting (exit {code:?}, signal {sig:?}): {last}", text.len()),
                    )
                }
            }
        }
    }
}

pub fn check(ctx: &Ctx) -> i32 {
    let start = Instant::now();
    let mut ev = Evidence::default();
    ev.rule = "inputs: token-level mutations (insert/delete/replace/swap from the lexer's vocabulary including combined tokens and oversized numbers), byte-level mutations, extreme literals, nesting up to depth 130 (quick) / 260 (thorough) of five nesting forms, entry-point variations (no main, 0..7 parameters, non-integer parameters/result), and unmodified generated programs; oracle: parse_module and Program::check return Ok or Err (no panic); accepted programs with a valid entry point pass fun2core, focusing, shrinking, linearization and all three code generators without a panic other than the two documented capacity assertions (and the RISC-V backend's documented `print` limitation). Non-trivial: the input parses (reaches the type checker); distinct by hash of the text. Second domain (declaration stress): generated polymorphic data/codata declarations whose fields mention the declared types at arbitrary type arguments up to depth 3 (non-regular and mutually recursive instantiation), used by a small program; each text is compiled in a child process on a 2 MB stack (the default thread stack, on which the repository's own tests run) under a 6 GB address-space cap, and a process that dies (signal, abort, stack exhaustion on an input of a few hundred bytes) is a violation, a time-out or an exhausted memory budget is inconclusive (counted as discarded). Third domain (binary): byte strings that a text-level harness cannot express (invalid UTF-8, NUL bytes, byte-order mark, CR LF, multi-byte characters, also truncated) around mutated programs are given as files (under ordinary names and names without extension, with several dots, blanks, non-ASCII and non-UTF-8 bytes) to the real `scc check` and, when accepted with a valid entry point, to `scc codegen x86-64|rv64`; the exit status must be 0 or 1 (a panic exits with 101, an abort by signal). thorough additionally replays the corpus of the libFuzzer target (fuzz/).".into();
    ev.assumptions = vec!["recursion depth of the front end is bounded by the nesting depth generated (stack exhaustion is outside the property's 'within stack limits')".into()];
    let mut report = Report { violations: vec![], infra_errors: vec![] };
    for k in ctx.known.iter().filter(|k| k.property == "C18" && k.status == "known") {
        if let Some(rp) = &k.replay {
            if let Ok(src) = std::fs::read_to_string(ctx.root.join(rp)) {
                if matches!(run_text(&src, "known"), CaseResult::Fail(_)) {
                    println!("KNOWN-FINDING: property=C18 {}", k.what);
                    ev.known_printed.push(k.id.clone());
                }
            }
        }
    }
    let n = ctx.tier.pick(10000, 600000);
    let run = |b: &[u8]| {
        let (text, kind) = mutated_input(ctx, b);
        run_text(&text, kind)
    };
    let out = drive(&mut ev, ctx.seed, 18, n, 60, 2000, 600, &run);
    if let Some((bytes, f)) = out.failure {
        eprintln!("{}", f.summary);
        report.violations.push(write_replay(ctx, "mutation", &bytes, &f));
    }
    // declaration stress, each text in its own process
    if report.violations.is_empty() {
        let n2 = ctx.tier.pick(400, 20000);
        let run2 = |b: &[u8]| run_in_child(ctx, &decl_stress(b));
        let out2 = drive(&mut ev, ctx.seed, 1018, n2, 20, 200, 16, &run2);
        if let Some((bytes, f)) = out2.failure {
            eprintln!("{}", f.summary);
            report.violations.push(write_replay(ctx, "decls", &bytes, &f));
        }
    }
    // byte strings through the real binary (`scc check`, `scc codegen`): exit status 0/1 only
    if report.violations.is_empty() {
        match super::cli::scc_exe(ctx) {
            None => report.infra_errors.push("the scc binary is not built (harness/target/scc); run ./check, not the harness directly".into()),
            Some(exe) => {
                // saved inputs first (regression tier)
                if let Ok(rd) = std::fs::read_dir(ctx.root.join("regressions").join("C18-cli")) {
                    let mut files: Vec<_> = rd.flatten().map(|e| e.path()).collect();
                    files.sort();
                    for f in files {
                        let Ok(input) = std::fs::read(&f) else { continue };
                        // under an ordinary name and under a name that is not valid UTF-8
                        for name_kind in [0usize, 5] {
                            let r = super::cli::c18_cli_case_named(ctx, &exe, &input, "cli: saved input", name_kind);
                            if let CaseResult::Fail(fl) = &r {
                                if report.violations.is_empty() {
                                    eprintln!("{}: {}", f.display(), fl.summary);
                                    report.violations.push(write_replay_with(ctx, "clifile", &[], fl, json!({"file": f.display().to_string(), "name_kind": name_kind})));
                                }
                            }
                            ev.absorb(&r);
                        }
                    }
                }
                let n3 = ctx.tier.pick(400, 20000);
                let run3 = |b: &[u8]| {
                    let (input, kind) = super::cli::byte_input(ctx, b);
                    let name_kind = b.last().copied().unwrap_or(0) as usize % 8;
                    super::cli::c18_cli_case_named(ctx, &exe, &input, kind, name_kind)
                };
                let out3 = drive(&mut ev, ctx.seed, 2018, n3, 60, 1200, 40, &run3);
                if let Some((bytes, f)) = out3.failure {
                    eprintln!("{}", f.summary);
                    report.violations.push(write_replay(ctx, "cli", &bytes, &f));
                }
            }
        }
    }
    // coverage-guided campaign (thorough only)
    if ctx.tier == Tier::Thorough && report.violations.is_empty() {
        let mut seeds: Vec<Vec<u8>> = vec![];
        for b in buffers(ctx.seed, 518, 300, 60, 2000) {
            seeds.push(mutated_input(ctx, &b).0.into_bytes());
        }
        if let Ok(rd) = std::fs::read_dir("/repo/examples") {
            for d in rd.flatten() {
                if let Ok(rd2) = std::fs::read_dir(d.path()) {
                    for f in rd2.flatten() {
                        if let Ok(b) = std::fs::read(f.path()) {
                            seeds.push(b);
                        }
                    }
                }
            }
        }
        match crate::fuzzrun::campaign(ctx, "compile", &seeds, 400_000, 1200) {
            Err(e) => report.infra_errors.push(e),
            Ok(c) => {
                ev.extra.insert("libfuzzer_executed_units".into(), json!(c.executed));
                ev.evaluations += c.executed;
                for a in &c.artifacts {
                    let text = String::from_utf8_lossy(a).into_owned();
                    let r = run_text(&text, "fuzz-artifact");
                    if let CaseResult::Fail(fl) = &r {
                        if report.violations.is_empty() {
                            eprintln!("libFuzzer artifact: {}", fl.summary);
                            report.violations.push(write_replay_with(ctx, "text", &[], fl, json!({"source": text})));
                        }
                    } else {
                        report.infra_errors.push("libFuzzer reported a crash that the harness oracle does not reproduce (see scratch artifacts)".into());
                    }
                }
            }
        }
    }
    // saved fuzzer findings / corpus (regression tier)
    let corpus = ctx.root.join("fuzz").join("regressions");
    if let Ok(rd) = std::fs::read_dir(&corpus) {
        let mut files: Vec<_> = rd.flatten().map(|e| e.path()).collect();
        files.sort();
        for f in files {
            if let Ok(bytes) = std::fs::read(&f) {
                let text = String::from_utf8_lossy(&bytes).into_owned();
                let r = run_text(&text, "fuzz-regression");
                if let CaseResult::Fail(fl) = &r {
                    if report.violations.is_empty() {
                        eprintln!("{}: {}", f.display(), fl.summary);
                        report.violations.push(write_replay_with(ctx, "text", &[], fl, json!({"source": text})));
                    }
                }
                ev.absorb(&r);
            }
        }
    }
    finish(ctx, &ev, &report, start)
}

pub fn replay(ctx: &Ctx, sub: &str, bytes: &[u8], case: &serde_json::Value) -> CaseResult {
    if sub.starts_with("text") {
        return run_text(case["source"].as_str().unwrap_or(""), "replay");
    }
    if sub.starts_with("clifile") {
        let Some(exe) = super::cli::scc_exe(ctx) else { return CaseResult::Discard("infra: scc binary not built".into()) };
        let input = std::fs::read(case["file"].as_str().unwrap_or("")).unwrap_or_default();
        return super::cli::c18_cli_case_named(ctx, &exe, &input, "cli: saved input", case["name_kind"].as_u64().unwrap_or(0) as usize);
    }
    if sub.starts_with("cli") {
        let Some(exe) = super::cli::scc_exe(ctx) else { return CaseResult::Discard("infra: scc binary not built".into()) };
        let (input, kind) = super::cli::byte_input(ctx, bytes);
        let name_kind = bytes.last().copied().unwrap_or(0) as usize % 8;
        return super::cli::c18_cli_case_named(ctx, &exe, &input, kind, name_kind);
    }
    if sub.starts_with("decls") {
        return run_in_child(ctx, &decl_stress(bytes));
    }
    let (text, kind) = mutated_input(ctx, bytes);
    run_text(&text, kind)
}

//! C19 — output size is polynomial: continuations are shared, not duplicated.

use crate::choice::Chooser;
use crate::families::*;
use crate::pipeline::{self, Arch};
use crate::runner::*;
use printer::Print;
use serde_json::json;
use std::time::Instant;

/// sizes (characters of the printed form / lines of assembly) of every stage
pub fn sizes(text: &str) -> Result<Vec<(&'static str, usize)>, String> {
    let c = pipeline::front(text).map_err(|e| format!("{e}"))?;
    let mut out = vec![
        ("core", c.core.print_to_string(None).len()),
        ("focused", c.focused.print_to_string(None).len()),
        ("axcut", c.shrunk.print_to_string(None).len()),
        ("linearized", c.linear.print_to_string(None).len()),
    ];
    for (arch, name) in [(Arch::X86, "asm x86_64"), (Arch::A64, "asm aarch64"), (Arch::Rv, "asm rv64")] {
        match pipeline::codegen(c.linear.clone(), arch) {
            Ok((asm, _)) => out.push((name, asm.lines().count())),
            Err(pipeline::StageError::Panic { msg, .. }) if pipeline::is_capacity_panic(&msg) => {}
            // the RISC-V backend documents `print` as not implemented
            Err(pipeline::StageError::Panic { msg, .. }) if arch == Arch::Rv && msg.contains("not implemented in RISC-V backend") => {}
            Err(e) => return Err(format!("{e}")),
        }
    }
    Ok(out)
}

const FACTOR: usize = 16;

pub fn compare(make: &dyn Fn(usize) -> String, ks: &[usize], what: &str) -> CaseResult {
    let mut classes = vec![];
    for k in ks {
        let small = make(*k);
        let large = make(2 * k);
        let s1 = match sizes(&small) {
            Ok(s) => s,
            Err(e) => return CaseResult::Discard(format!("family does not compile: {}", &e[..e.len().min(80)])),
        };
        let s2 = match sizes(&large) {
            Ok(s) => s,
            Err(e) => return CaseResult::Discard(format!("family does not compile: {}", &e[..e.len().min(80)])),
        };
        for (stage, a) in s1.iter() {
            // a backend may be skipped at one depth only (capacity assertion): compare by name
            let Some((_, b)) = s2.iter().find(|(n, _)| n == stage) else { continue };
            if *b > FACTOR * *a {
                return CaseResult::Fail(Failure {
                    kind: "blowup".into(),
                    summary: format!("{what}: size of {stage} grows from {a} (depth {k}) to {b} (depth {}), more than {FACTOR}x: not a low-degree polynomial", 2 * k),
                    details: json!({"family": what, "depth": k, "source_small": small, "stage": stage, "size_small": a, "size_large": b}),
                });
            }
        }
        classes.push(format!("depth {}->{}", k, 2 * k));
    }
    CaseResult::Pass {
        nontrivial: true,
        hash: hash_str(&format!("{what}{ks:?}")),
        classes,
        sample: Some(json!({"family": what, "depths": ks, "source_at_smallest_depth": make(ks[0])})),
    }
}

pub fn check(ctx: &Ctx) -> i32 {
    let start = Instant::now();
    let mut ev = Evidence::default();
    ev.rule = "scalable families parameterised by (construct kinds, depth k, number of constructors 2..4, amount of trailing code): k sequenced branch points (conditional, match over c constructors, data-typed match feeding a match = critical pairs, conditional with codata result, conditionals in operand position, a destructor invoked directly on a codata-typed conditional / match, a conditional in a constructor argument or in the argument of a destructor invocation), k branch points lifted out of one statement (conditionals / matches as operands of one nested sum, as arguments of nested calls, as constructor arguments of one list; comparisons between variables, against zero, against literals; branches that are bare variables or literals), k nested branch points (conditional / match), k branch points nested in scrutinee position (matches of matches, destructor chains), k nested branch points whose result has type i64 / a four-constructor data type / a list / a codata type with one / with two destructors, sitting in a let binding or directly in a call argument, branching by a conditional or a four-way match, each sequenced kind also with every kind of statement directly following the branch point (call of a top-level definition with one/several arguments, print, constructor + match, destructor invocation, label + jump, arithmetic, closure creation + invocation), and seeded random mixtures of kinds and followers; oracle: for k = 4..8 every stage's size (characters of printed Core, focused Core, AxCut, linearized AxCut; lines of x86-64/AArch64/RISC-V assembly) at depth 2k is at most 16x the size at depth k (degree <= 4; duplication of continuations gives a factor >= 2^k), and all stages finish. Non-trivial: every compiled family; distinct by hash of the family parameters.".into();
    ev.assumptions = vec!["size is measured on the printed form of each stage".into()];
    let mut report = Report { violations: vec![], infra_errors: vec![] };
    let ks: Vec<usize> = ctx.tier.pick(vec![4, 6, 8], vec![4, 5, 6, 7, 8]);
    let mut fixed: Vec<(String, Box<dyn Fn(usize) -> String + Sync>)> = vec![];
    for kind in 0..KINDS {
        for ctors in [2usize, 4] {
            fixed.push((format!("sequenced kind {kind}, {ctors} constructors"), Box::new(move |k| size_family(&[kind], k, ctors, 3))));
        }
    }
    for kind in 0..2usize {
        fixed.push((format!("nested kind {kind}"), Box::new(move |k| nested_family(kind, k))));
    }
    for kind in 0..3usize {
        fixed.push((format!("scrutinee nesting kind {kind}"), Box::new(move |k| scrutinee_family(kind, k))));
    }
    for ty in 0..5usize {
        for pos in 0..2usize {
            for br in 0..2usize {
                fixed.push((format!("nested result type {ty}, position {pos}, branch {br}"), Box::new(move |k| nested_family2(ty, pos, br, k))));
            }
        }
    }
    for kind in 0..KINDS {
        for fo in 1..FOLLOWS {
            fixed.push((format!("sequenced kind {kind}, follow {fo}"), Box::new(move |k| size_family_with(&[kind], &[fo], k, 3, 2))));
        }
    }
    for v in 0..OPERAND_VARIANTS {
        fixed.push((format!("operand positions variant {v}"), Box::new(move |k| operand_family(v, k))));
    }
    for (name, make) in &fixed {
        let r = compare(&**make, &ks, name);
        if let CaseResult::Fail(f) = &r {
            if report.violations.is_empty() {
                eprintln!("{}", f.summary);
                report.violations.push(write_replay_with(ctx, "family", &[], f, json!({"name": name})));
            }
        }
        ev.absorb(&r);
        if !report.violations.is_empty() {
            // do not keep compiling exponentially growing programs
            break;
        }
    }
    if report.violations.is_empty() {
        let n = ctx.tier.pick(60, 600);
        let run = |b: &[u8]| {
            let mut c = Chooser::new(b);
            let (kinds, follows, ctors, trailing) = random_size_family(&mut c);
            let k0 = 4 + c.choose(3);
            compare(
                &|k| size_family_with(&kinds, &follows, k, ctors, trailing),
                &[k0],
                &format!("random mixture {kinds:?}, follows {follows:?}, {ctors} constructors, trailing {trailing}"),
            )
        };
        let out = drive(&mut ev, ctx.seed, 19, n, 4, 24, 20, &run);
        if let Some((bytes, f)) = out.failure {
            eprintln!("{}", f.summary);
            report.violations.push(write_replay(ctx, "random", &bytes, &f));
        }
    }
    finish(ctx, &ev, &report, start)
}

pub fn replay(_ctx: &Ctx, sub: &str, bytes: &[u8], case: &serde_json::Value) -> CaseResult {
    if sub.starts_with("random") {
        let mut c = Chooser::new(bytes);
        let (kinds, follows, ctors, trailing) = random_size_family(&mut c);
        let k0 = 4 + c.choose(3);
        return compare(&|k| size_family_with(&kinds, &follows, k, ctors, trailing), &[k0], "random mixture");
    }
    let name = case["name"].as_str().unwrap_or("");
    for kind in 0..KINDS {
        for ctors in [2usize, 4] {
            if name == format!("sequenced kind {kind}, {ctors} constructors") {
                return compare(&move |k| size_family(&[kind], k, ctors, 3), &[4, 6, 8], name);
            }
        }
    }
    for kind in 0..2usize {
        if name == format!("nested kind {kind}") {
            return compare(&move |k| nested_family(kind, k), &[4, 6, 8], name);
        }
    }
    for kind in 0..3usize {
        if name == format!("scrutinee nesting kind {kind}") {
            return compare(&move |k| scrutinee_family(kind, k), &[4, 6, 8], name);
        }
    }
    for ty in 0..5usize {
        for pos in 0..2usize {
            for br in 0..2usize {
                if name == format!("nested result type {ty}, position {pos}, branch {br}") {
                    return compare(&move |k| nested_family2(ty, pos, br, k), &[4, 6, 8], name);
                }
            }
        }
    }
    for kind in 0..KINDS {
        for fo in 1..FOLLOWS {
            if name == format!("sequenced kind {kind}, follow {fo}") {
                return compare(&move |k| size_family_with(&[kind], &[fo], k, 3, 2), &[4, 6, 8], name);
            }
        }
    }
    for v in 0..OPERAND_VARIANTS {
        if name == format!("operand positions variant {v}") {
            return compare(&move |k| operand_family(v, k), &[4, 6, 8], name);
        }
    }
    CaseResult::Discard("unknown family".into())
}

//! C20 — runtime contract: arguments, printing, exit status exact for all 64-bit values.

use crate::choice::Chooser;
use crate::emu_common::Fault;
use crate::native::{Toolchain, run_with_timeout};
use crate::pipeline::{self, Arch};
use crate::runner::*;
use serde_json::json;
use std::collections::HashMap;
use std::path::PathBuf;
use std::process::Command;
use std::sync::Mutex;
use std::time::{Duration, Instant};

fn boundary_values() -> Vec<i64> {
    let mut v: Vec<i64> = vec![0, 1, -1, 9, -9, 10, -10, 11, 99, 100, 101, -99, -100, -101, i64::MAX, i64::MIN, i64::MAX - 1, i64::MIN + 1];
    let mut p: i64 = 1;
    for _ in 0..18 {
        p = p.saturating_mul(10);
        v.extend([p - 1, p, p + 1, -(p - 1), -p, -(p + 1)]);
    }
    for k in 1..63 {
        let q = 1i64 << k;
        v.extend([q - 1, q, q + 1, -(q - 1), -q, -(q + 1)]);
    }
    // every leading digit at every magnitude (d * 10^e), with neighbours and with a small or a
    // nine-digit tail: decimal printing in chunks is wrong exactly at such round numbers
    let mut p: i128 = 1;
    for _e in 0..19 {
        for d in 1..10i128 {
            for tail in [0i128, 1, -1, 42, 999_999_999, 1_000_000_000, 123_456_789_012] {
                for sign in [1i128, -1] {
                    let x = sign * (d * p + tail);
                    if x >= i64::MIN as i128 && x <= i64::MAX as i128 {
                        v.push(x as i64);
                    }
                }
            }
        }
        p *= 10;
    }
    v.sort();
    v.dedup();
    v
}

/// a sum of up to three terms d * 10^e (zeros in the middle of the decimal form)
fn decimal_structured(c: &mut Chooser) -> i64 {
    let mut x: i128 = 0;
    for _ in 0..1 + c.choose(3) {
        let d = if c.boolean() { 1 + c.choose(9) as i128 } else { c.choose(1000) as i128 };
        let e = c.choose(19) as u32;
        x += d * 10i128.pow(e);
    }
    if c.boolean() {
        x = -x;
    }
    x.clamp(i64::MIN as i128, i64::MAX as i128) as i64
}

fn value(c: &mut Chooser, bounds: &[i64]) -> i64 {
    match c.weighted(&[45, 25, 30]) {
        0 => bounds[c.choose(bounds.len())],
        1 => decimal_structured(c),
        _ => c.raw_u64() as i64,
    }
}

/// program: print every parameter in order, return parameter `ret` (or a literal)
fn program(k: usize, ret: Option<usize>) -> String {
    let params: Vec<String> = (0..k).map(|i| format!("a{i}: i64")).collect();
    let mut body = String::new();
    for i in 0..k {
        body.push_str(&format!("println_i64(a{i});\n  "));
    }
    match ret {
        Some(r) => body.push_str(&format!("a{r}")),
        None => body.push_str("77"),
    }
    format!("def main({}): i64 {{\n  {}\n}}\n", params.join(", "), body)
}

struct Exes {
    tc: Toolchain,
    printer: Mutex<Option<PathBuf>>,
    progs: Mutex<HashMap<(usize, Option<usize>), Result<PathBuf, String>>>,
}

impl Exes {
    fn printer_exe(&self) -> Result<PathBuf, String> {
        let mut g = self.printer.lock().unwrap();
        if let Some(p) = &*g {
            return Ok(p.clone());
        }
        let main_c = self.tc.dir.join("print_main.c");
        std::fs::write(
            &main_c,
            "#include <stdint.h>\n#include <stdlib.h>\nvoid print_i64(int64_t) asm(\"print_i64\");\nvoid println_i64(int64_t) asm(\"println_i64\");\nint main(int argc, char **argv) {\n  for (int i = 1; i < argc; i++) {\n    long long v = strtoll(argv[i] + 1, 0, 10);\n    if (argv[i][0] == 'n') println_i64(v); else print_i64(v);\n  }\n  return 0;\n}\n",
        )
        .map_err(|e| e.to_string())?;
        let io = std::fs::canonicalize(driver::generate_io_runtime()).map_err(|e| e.to_string())?;
        let exe = self.tc.dir.join("print_main.exe");
        let o = Command::new("gcc").args(["-O1", "-o"]).arg(&exe).arg(&main_c).arg(&io).output().map_err(|e| e.to_string())?;
        if !o.status.success() {
            return Err(format!("gcc: {}", String::from_utf8_lossy(&o.stderr)));
        }
        *g = Some(exe.clone());
        Ok(exe)
    }

    fn prog_exe(&self, k: usize, ret: Option<usize>) -> Result<PathBuf, String> {
        let mut g = self.progs.lock().unwrap();
        if let Some(r) = g.get(&(k, ret)) {
            return r.clone();
        }
        let r = (|| {
            let text = program(k, ret);
            // a main with at most five integer parameters is within the documented interface: a
            // compiler failure here means the arguments do not reach the program
            let c = pipeline::front(&text).map_err(|e| format!("compiler: {e}"))?;
            let (asm, n) = pipeline::codegen(c.linear, Arch::X86).map_err(|e| format!("compiler: {e}"))?;
            self.tc.build_exe(&asm, n, &format!("c20_{k}_{}", ret.map(|r| r as i64).unwrap_or(-1))).map_err(|e| format!("{e:?}"))
        })();
        g.insert((k, ret), r.clone());
        r
    }
}

fn print_case(ex: &Exes, bytes: &[u8], bounds: &[i64]) -> CaseResult {
    let mut c = Chooser::new(bytes);
    let n = 1 + c.choose(40);
    let mut items: Vec<(bool, i64)> = (0..n).map(|_| (c.boolean(), value(&mut c, bounds))).collect();
    // long runs: hundreds of values with no, rare or frequent newlines (kilobytes of output
    // between two newlines), cycling through the drawn values and simple derivatives of them
    let long_run = c.prob(28);
    if long_run {
        let total = 150 + c.choose(1500);
        let nl_every = [0usize, 97, 13, 2][c.choose(4)];
        let base = items.clone();
        items = (0..total)
            .map(|i| {
                let v = base[i % base.len()].1;
                let v = if i % 3 == 2 { v.wrapping_mul(31).wrapping_add(i as i64) } else { v };
                (nl_every != 0 && i % nl_every == nl_every - 1, v)
            })
            .collect();
    }
    let exe = match ex.printer_exe() {
        Ok(e) => e,
        Err(m) => return CaseResult::Discard(format!("infra: {m}")),
    };
    let args: Vec<String> = items.iter().map(|(nl, v)| format!("{}{}", if *nl { 'n' } else { 'p' }, v)).collect();
    let mut expected = Vec::new();
    for (nl, v) in &items {
        expected.extend_from_slice(v.to_string().as_bytes());
        if *nl {
            expected.push(b'\n');
        }
    }
    let r = match run_with_timeout(&exe, &args, Duration::from_secs(10)) {
        Ok(r) => r,
        Err(e) => return CaseResult::Discard(format!("infra: {e}")),
    };
    if r.stdout != expected || r.code != Some(0) {
        // find the first offending value for the report
        let mut culprit = None;
        for (nl, v) in items.iter().take(60) {
            let a = vec![format!("{}{}", if *nl { 'n' } else { 'p' }, v)];
            if let Ok(r1) = run_with_timeout(&exe, &a, Duration::from_secs(10)) {
                let mut e1 = v.to_string().into_bytes();
                if *nl {
                    e1.push(b'\n');
                }
                if r1.stdout != e1 {
                    culprit = Some((*nl, *v, String::from_utf8_lossy(&r1.stdout).into_owned()));
                    break;
                }
            }
        }
        return CaseResult::Fail(Failure {
            kind: "print".into(),
            summary: match &culprit {
                Some((nl, v, got)) => format!("{}({v}) writes {got:?}", if *nl { "println_i64" } else { "print_i64" }),
                None => "print primitives write something else than the decimal representations".into(),
            },
            details: json!({"values": items.iter().map(|(n, v)| json!([n, v])).collect::<Vec<_>>(),
                            "expected": String::from_utf8_lossy(&expected), "observed": String::from_utf8_lossy(&r.stdout), "status": r.code}),
        });
    }
    let big = items.iter().filter(|(_, v)| v.unsigned_abs() >= 1 << 31).count();
    CaseResult::Pass {
        nontrivial: big > 0,
        hash: hash_str(&format!("{items:?}")),
        classes: if long_run { vec!["print".into(), format!("print: run of {} values", if items.len() >= 600 { ">= 600" } else { "150..599" })] } else { vec!["print".into()] },
        sample: Some(json!({"printed_values": items.iter().take(6).map(|(n, v)| json!([n, v])).collect::<Vec<_>>()})),
    }
}

fn args_case(ex: &Exes, bytes: &[u8], bounds: &[i64]) -> CaseResult {
    let mut c = Chooser::new(bytes);
    let k = c.choose(6);
    let ret = if k > 0 && c.prob(200) { Some(c.choose(k)) } else { None };
    let wrong = c.prob(40);
    let exe = match ex.prog_exe(k, ret) {
        Ok(e) => e,
        Err(m) if m.starts_with("compiler: ") => {
            return CaseResult::Fail(Failure {
                kind: "compile".into(),
                summary: format!("a main with {k} integer parameters does not compile for x86-64: {m}"),
                details: json!({"source": program(k, ret)}),
            });
        }
        Err(m) => return CaseResult::Discard(format!("infra: {m}")),
    };
    let vals: Vec<i64> = (0..k).map(|_| value(&mut c, bounds)).collect();
    if wrong {
        // one argument too few or too many
        let mut a: Vec<String> = vals.iter().map(|v| v.to_string()).collect();
        if k > 0 && c.boolean() {
            a.pop();
        } else {
            a.push("5".into());
        }
        let r = match run_with_timeout(&exe, &a, Duration::from_secs(10)) {
            Ok(r) => r,
            Err(e) => return CaseResult::Discard(format!("infra: {e}")),
        };
        let text = String::from_utf8_lossy(&r.stdout).into_owned() + &String::from_utf8_lossy(&r.stderr);
        let program_output = r.stdout.iter().any(|b| b.is_ascii_digit());
        if r.code == Some(0) || r.code.is_none() || program_output || !text.contains("wrong number of arguments") {
            return CaseResult::Fail(Failure {
                kind: "argcount".into(),
                summary: format!("a wrong number of arguments ({} for {k} parameters) is not reported: status {:?}, output {text:?}", a.len(), r.code),
                details: json!({"source": program(k, ret), "args": a}),
            });
        }
        return CaseResult::Pass { nontrivial: k >= 3, hash: hash_str(&format!("w{k}{a:?}")), classes: vec!["wrong argument count".into()], sample: None };
    }
    // spelling of a decimal argument: canonical, zero-padded, with an explicit plus sign
    let mut padded = false;
    let a: Vec<String> = vals
        .iter()
        .map(|v| {
            let digits = v.unsigned_abs().to_string();
            match c.weighted(&[60, 22, 10, 8]) {
                0 => v.to_string(),
                1 => {
                    padded = true;
                    format!("{}{}{digits}", if *v < 0 { "-" } else { "" }, "0".repeat(1 + c.choose(3)))
                }
                2 if *v >= 0 => format!("+{digits}"),
                3 if *v >= 0 => {
                    padded = true;
                    format!("+0{digits}")
                }
                _ => v.to_string(),
            }
        })
        .collect();
    let r = match run_with_timeout(&exe, &a, Duration::from_secs(10)) {
        Ok(r) => r,
        Err(e) => return CaseResult::Discard(format!("infra: {e}")),
    };
    let mut expected = Vec::new();
    for v in &vals {
        expected.extend_from_slice(v.to_string().as_bytes());
        expected.push(b'\n');
    }
    let result = ret.map(|i| vals[i]).unwrap_or(77);
    let status = (result & 0xff) as i32;
    if r.stdout != expected || r.code != Some(status) {
        return CaseResult::Fail(Failure {
            kind: "args".into(),
            summary: format!("main({}) prints {:?} and exits with {:?}; expected {:?} and {status}", a.join(", "), String::from_utf8_lossy(&r.stdout), r.code, String::from_utf8_lossy(&expected)),
            details: json!({"source": program(k, ret), "args": a}),
        });
    }
    let big = vals.iter().any(|v| v.unsigned_abs() >= 1 << 31);
    let mut classes = vec![format!("parameters:{k}")];
    if padded {
        classes.push("zero-padded decimal argument".into());
    }
    CaseResult::Pass {
        nontrivial: big || k >= 3,
        hash: hash_str(&format!("{k}{ret:?}{a:?}")),
        classes,
        sample: Some(json!({"source": program(k, ret), "args": vals, "status": status})),
    }
}

/// the C driver generated for several heap sizes (MB), linked with one allocating program
fn heap_size_case(ex: &Exes) -> CaseResult {
    let text = crate::families::space_family(0, 40);
    let (asm, n) = match pipeline::front(&text).and_then(|c| pipeline::codegen(c.linear, Arch::X86)) {
        Ok(x) => x,
        Err(e) => return CaseResult::Discard(format!("infra: {e}")),
    };
    let obj = match ex.tc.assemble_x86(&asm, "c20_heap") {
        Ok(o) => o,
        Err(e) => return CaseResult::Discard(format!("infra: {e:?}")),
    };
    let mut reference: Option<(Vec<u8>, Option<i32>)> = None;
    let mut classes = vec![];
    for hs in [None, Some(1usize), Some(64), Some(1024), Some(2048), Some(3000)] {
        let exe = match ex.tc.link(&obj, n, hs, &format!("c20_heap_{}", hs.unwrap_or(0))) {
            Ok(e) => e,
            Err(e) => return CaseResult::Discard(format!("infra: {e:?}")),
        };
        let r = match run_with_timeout(&exe, &["30".to_string()], Duration::from_secs(20)) {
            Ok(r) => r,
            Err(e) => return CaseResult::Discard(format!("infra: {e}")),
        };
        let got = (r.stdout.clone(), r.code);
        match &reference {
            None => reference = Some(got),
            Some(want) => {
                if *want != got {
                    // is a zeroed allocation of that size possible here at all?
                    let mb = hs.unwrap_or(32);
                    let probe = ex.tc.dir.join("calloc_probe.c");
                    let pexe = ex.tc.dir.join("calloc_probe.exe");
                    let _ = std::fs::write(&probe, "#include <stdlib.h>\n#include <stdint.h>\nint main(int c, char **v) { void *p = calloc(UINT64_C(1048576) * strtoull(v[1], 0, 10), 1); return p ? 0 : 3; }\n");
                    let built = Command::new("gcc").arg("-o").arg(&pexe).arg(&probe).status().map(|s| s.success()).unwrap_or(false);
                    let can = built && run_with_timeout(&pexe, &[mb.to_string()], Duration::from_secs(20)).map(|r| r.code == Some(0)).unwrap_or(false);
                    if !can {
                        return CaseResult::Discard(format!("infra: this machine cannot allocate {mb} MB"));
                    }
                    return CaseResult::Fail(Failure {
                        kind: "heapsize".into(),
                        summary: format!(
                            "the program behaves differently with --heap-size {mb}: status {:?} (signal {:?}), output {:?}; with the default heap: status {:?}, output {:?}",
                            r.code,
                            r.signal,
                            String::from_utf8_lossy(&r.stdout),
                            want.1,
                            String::from_utf8_lossy(&want.0)
                        ),
                        details: json!({"source": text, "heap_size_mb": mb}),
                    });
                }
            }
        }
        classes.push(format!("heap size {:?} MB", hs));
    }
    CaseResult::Pass { nontrivial: true, hash: hash_str("heap sizes"), classes, sample: None }
}

fn a64_args_case(bytes: &[u8], bounds: &[i64]) -> CaseResult {
    let mut c = Chooser::new(bytes);
    let k = c.choose(8);
    let vals: Vec<i64> = (0..k).map(|_| value(&mut c, bounds)).collect();
    let text = program(k, if k > 0 { Some(k - 1) } else { None });
    // main with up to 7 parameters is beyond what the x86-64 driver supports, but the AArch64
    // routine moves X1..X7 into the environment
    let lin = match pipeline::front(&text) {
        Ok(c) => c.linear,
        Err(e) => return CaseResult::Discard(format!("infra: {e}")),
    };
    let asm = match pipeline::codegen(lin, Arch::A64) {
        Ok((a, _)) => a,
        Err(e) => {
            return CaseResult::Fail(Failure { kind: "a64".into(), summary: format!("aarch64: {e}"), details: json!({"source": text}) });
        }
    };
    let r = crate::emu_a64::run_text(&asm, &vals, 1_000_000, 1 << 12, None);
    let got: Vec<i64> = r.events.iter().map(|e| e.value).collect();
    let want_ret = if k > 0 { vals[k - 1] } else { 77 };
    match r.outcome {
        Err(Fault::Unsupported(s)) => CaseResult::Discard(format!("infra: {s}")),
        Ok(v) if got == vals && v == want_ret as u64 => CaseResult::Pass {
            nontrivial: k >= 3,
            hash: hash_str(&format!("a64{vals:?}")),
            classes: vec![format!("aarch64 parameters:{k}")],
            sample: None,
        },
        other => CaseResult::Fail(Failure {
            kind: "a64".into(),
            summary: format!("aarch64 entry: parameters {vals:?} arrive as {got:?}, outcome {other:?}"),
            details: json!({"source": text, "args": vals}),
        }),
    }
}

pub fn check(ctx: &Ctx) -> i32 {
    let start = Instant::now();
    let mut ev = Evidence::default();
    ev.rule = "printing: io.c of the working tree linked with a tiny C main; batches of up to 40 values (one case in nine: a run of 150..1650 values with no newline at all, or one every 97th, 13th, 2nd value, i.e. kilobytes of output between two newlines) drawn from all boundaries (0, +-1, +-9, +-10, powers of ten +-1, powers of two +-1, MIN, MAX, every d*10^e for d = 1..9 with neighbours and with small / nine-digit / twelve-digit tails), sums of up to three terms d*10^e (zeros inside the decimal form) and random 64-bit values; oracle: Rust's decimal formatting (+ newline for the line variant). arguments/status: programs `def main(a0..ak){ println_i64(a0); ...; ai }` for k = 0..5 compiled through the real pipeline and generate_c_driver, run natively with boundary/random decimal arguments in several spellings (canonical, zero-padded `007`/`-0042`, explicit plus sign); oracle: each parameter printed unchanged and in order, status = result mod 256; with one argument too few/too many: a message, non-zero status and no program output. heap size: one allocating program linked with the C driver generated for heap sizes default, 1, 64, 1024, 2048 and 3000 MB must behave identically (if the machine can allocate that much). AArch64: the same programs for k = 0..7 on the emulator with the arguments in X1..X7. Non-trivial: |value| >= 2^31 or k >= 3; distinct by hash of the values.".into();
    ev.assumptions = vec!["gcc and GNU as of the sandbox; AArch64 entry on the emulator only".into()];
    let bounds = boundary_values();
    let ex = Exes { tc: Toolchain::new(ctx.scratch.clone()), printer: Mutex::new(None), progs: Mutex::new(HashMap::new()) };
    let mut report = Report { violations: vec![], infra_errors: vec![] };
    // all boundaries once, deterministically
    {
        for chunk in bounds.chunks(40) {
            let exe = ex.printer_exe();
            if let Ok(exe) = exe {
                let args: Vec<String> = chunk.iter().map(|v| format!("n{v}")).collect();
                let mut expected = Vec::new();
                for v in chunk {
                    expected.extend_from_slice(v.to_string().as_bytes());
                    expected.push(b'\n');
                }
                if let Ok(r) = run_with_timeout(&exe, &args, Duration::from_secs(10)) {
                    let ok = r.stdout == expected;
                    let res = if ok {
                        CaseResult::Pass { nontrivial: true, hash: hash_str(&format!("b{chunk:?}")), classes: vec!["boundary sweep".into()], sample: None }
                    } else {
                        CaseResult::Fail(Failure {
                            kind: "print".into(),
                            summary: "println_i64 is wrong on a boundary value".into(),
                            details: json!({"values": chunk, "observed": String::from_utf8_lossy(&r.stdout)}),
                        })
                    };
                    if let CaseResult::Fail(f) = &res {
                        if report.violations.is_empty() {
                            eprintln!("{}", f.summary);
                            report.violations.push(write_replay_with(ctx, "sweep", &[], f, json!({"values": chunk})));
                        }
                    }
                    ev.absorb(&res);
                }
            }
        }
    }
    let n = ctx.tier.pick(600, 100000);
    if report.violations.is_empty() {
        let out = drive(&mut ev, ctx.seed, 20, n, 16, 400, 200, &|b| print_case(&ex, b, &bounds));
        if let Some((bytes, f)) = out.failure {
            eprintln!("{}", f.summary);
            report.violations.push(write_replay(ctx, "print", &bytes, &f));
        }
    }
    if report.violations.is_empty() {
        let out = drive(&mut ev, ctx.seed, 120, n, 8, 80, 200, &|b| args_case(&ex, b, &bounds));
        if let Some((bytes, f)) = out.failure {
            eprintln!("{}", f.summary);
            report.violations.push(write_replay(ctx, "args", &bytes, &f));
        }
    }
    if report.violations.is_empty() {
        let out = drive(&mut ev, ctx.seed, 220, n, 8, 100, 200, &|b| a64_args_case(b, &bounds));
        if let Some((bytes, f)) = out.failure {
            eprintln!("{}", f.summary);
            report.violations.push(write_replay(ctx, "a64", &bytes, &f));
        }
    }
    // heap-size option of the driver: an allocating program must behave the same for every
    // sufficient heap size
    if report.violations.is_empty() {
        let r = heap_size_case(&ex);
        if let CaseResult::Fail(f) = &r {
            eprintln!("{}", f.summary);
            report.violations.push(write_replay_with(ctx, "heap", &[], f, json!({})));
        }
        ev.absorb(&r);
    }
    let infra: u64 = ev.discards.iter().filter(|(k, _)| k.starts_with("infra")).map(|(_, v)| *v).sum();
    if infra > 0 {
        report.infra_errors.push(format!("{infra} cases hit an infrastructure problem (see evidence)"));
    }
    finish(ctx, &ev, &report, start)
}

pub fn replay(ctx: &Ctx, sub: &str, bytes: &[u8], case: &serde_json::Value) -> CaseResult {
    let bounds = boundary_values();
    let ex = Exes { tc: Toolchain::new(ctx.scratch.clone()), printer: Mutex::new(None), progs: Mutex::new(HashMap::new()) };
    if sub.starts_with("sweep") {
        let vals: Vec<i64> = case["values"].as_array().map(|a| a.iter().filter_map(|v| v.as_i64()).collect()).unwrap_or_default();
        let Ok(exe) = ex.printer_exe() else { return CaseResult::Discard("infra".into()) };
        let args: Vec<String> = vals.iter().map(|v| format!("n{v}")).collect();
        let mut expected = Vec::new();
        for v in &vals {
            expected.extend_from_slice(v.to_string().as_bytes());
            expected.push(b'\n');
        }
        return match run_with_timeout(&exe, &args, Duration::from_secs(10)) {
            Ok(r) if r.stdout == expected => CaseResult::Pass { nontrivial: true, hash: 0, classes: vec![], sample: None },
            Ok(r) => CaseResult::Fail(Failure { kind: "print".into(), summary: "println_i64 is wrong on a boundary value".into(), details: json!({"observed": String::from_utf8_lossy(&r.stdout)}) }),
            Err(e) => CaseResult::Discard(format!("infra: {e}")),
        };
    }
    if sub.starts_with("heap") {
        heap_size_case(&ex)
    } else if sub.starts_with("print") {
        print_case(&ex, bytes, &bounds)
    } else if sub.starts_with("a64") {
        a64_args_case(bytes, &bounds)
    } else {
        args_case(&ex, bytes, &bounds)
    }
}

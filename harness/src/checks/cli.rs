//! The real `scc` binary in the loop (built by /verif/check from /repo's working tree into
//! harness/target/scc): C16's in-place formatter and C18's "exit status of the scc binary".

use crate::choice::Chooser;
use crate::native::{RunResult, run_with_timeout};
use crate::pipeline;
use crate::runner::*;
use serde_json::json;
use std::path::PathBuf;
use std::time::Duration;

pub fn scc_exe(ctx: &Ctx) -> Option<PathBuf> {
    let p = ctx.root.join("harness").join("target").join("scc").join("release").join("scc");
    if p.exists() { Some(p) } else { None }
}

fn run_scc(exe: &PathBuf, args: &[String], secs: u64) -> std::io::Result<RunResult> {
    // address-space cap as for every child that runs the compiler
    let quoted: Vec<String> = args.iter().map(|a| format!("'{}'", a.replace('\'', "'\\''"))).collect();
    let script = format!("ulimit -v 6000000; exec '{}' {}", exe.display(), quoted.join(" "));
    run_with_timeout(std::path::Path::new("/bin/sh"), &["-c".to_string(), script], Duration::from_secs(secs))
}

/// like run_scc, but the file path may be any byte string (passed through the environment, so
/// that no quoting is involved)
fn run_scc_os(exe: &PathBuf, before: &[String], file: &std::path::Path, after: &[String], secs: u64) -> std::io::Result<RunResult> {
    use std::io::Read;
    use std::os::unix::process::ExitStatusExt;
    let b: Vec<String> = before.iter().map(|a| format!("'{a}'")).collect();
    let a: Vec<String> = after.iter().map(|a| format!("'{a}'")).collect();
    let script = format!("ulimit -v 6000000; exec '{}' {} \"$SCC_FILE\" {}", exe.display(), b.join(" "), a.join(" "));
    let mut child = std::process::Command::new("/bin/sh")
        .arg("-c")
        .arg(script)
        .env("SCC_FILE", file.as_os_str())
        .stdin(std::process::Stdio::null())
        .stdout(std::process::Stdio::piped())
        .stderr(std::process::Stdio::piped())
        .spawn()?;
    let start = std::time::Instant::now();
    let mut timed_out = false;
    loop {
        if child.try_wait()?.is_some() {
            break;
        }
        if start.elapsed() > Duration::from_secs(secs) {
            let _ = child.kill();
            timed_out = true;
            break;
        }
        std::thread::sleep(Duration::from_millis(2));
    }
    let status = child.wait()?;
    let mut stdout = vec![];
    let mut stderr = vec![];
    if let Some(mut o) = child.stdout.take() {
        let _ = o.read_to_end(&mut stdout);
    }
    if let Some(mut e) = child.stderr.take() {
        let _ = e.read_to_end(&mut stderr);
    }
    Ok(RunResult { stdout, stderr, code: status.code(), signal: status.signal(), timed_out })
}

fn last_line(b: &[u8]) -> String {
    let s = String::from_utf8_lossy(b);
    let l = s.lines().find(|l| l.contains("panicked at")).or_else(|| s.lines().rev().find(|l| !l.trim().is_empty())).unwrap_or("");
    let mut t = l.to_string();
    t.truncate(200);
    t
}

/// `handled`: exit status 0 (done) or 1 (reported error); anything else is the compiler dying
fn verdict(r: &RunResult) -> Result<bool, String> {
    if r.timed_out {
        return Err("timeout".into());
    }
    match (r.code, r.signal) {
        (Some(0), _) => Ok(true),
        (Some(1), _) => Ok(false),
        (code, sig) => Err(format!("exit {code:?}, signal {sig:?}: {}", last_line(&r.stderr))),
    }
}

// ------------------------------------------------------------------------------------------
// C18: byte-level inputs through `scc check` / `scc codegen`
// ------------------------------------------------------------------------------------------

/// a byte string: a (mutated) program text with byte-level damage that a text-level harness
/// cannot express (invalid UTF-8, NUL, BOM, CR LF, multi-byte characters)
pub fn byte_input(ctx: &Ctx, bytes: &[u8]) -> (Vec<u8>, &'static str) {
    let mut c = Chooser::new(bytes);
    let kind = c.weighted(&[15, 25, 10, 8, 12, 10, 20]);
    let rest = &bytes[c.used().min(bytes.len())..];
    let (text, _) = super::c18::mutated_input(ctx, rest);
    let mut v = text.into_bytes();
    let pos = |c: &mut Chooser, len: usize| if len == 0 { 0 } else { c.choose(len + 1) };
    match kind {
        0 => (v, "cli: text as is"),
        1 => {
            for _ in 0..1 + c.choose(3) {
                let p = pos(&mut c, v.len());
                v.insert(p, 0x80 + c.choose(0x80) as u8);
            }
            (v, "cli: invalid UTF-8 bytes")
        }
        2 => {
            let p = pos(&mut c, v.len());
            v.insert(p, 0);
            (v, "cli: NUL byte")
        }
        3 => {
            let mut w = vec![0xEF, 0xBB, 0xBF];
            w.extend_from_slice(&v);
            (w, "cli: byte-order mark")
        }
        4 => {
            // a multi-byte character, possibly cut in the middle
            let ch = ["é", "→", "𝛍", "λ"][c.choose(4)].as_bytes().to_vec();
            let cut = if c.boolean() { ch.len() } else { 1 + c.choose(ch.len() - 1) };
            let p = pos(&mut c, v.len());
            for (i, b) in ch[..cut].iter().enumerate() {
                v.insert(p + i, *b);
            }
            (v, "cli: multi-byte character (possibly truncated)")
        }
        5 => {
            let s = String::from_utf8_lossy(&v).replace('\n', "\r\n");
            (s.into_bytes(), "cli: CR LF line ends")
        }
        _ => {
            // multi-byte characters inside a comment
            let mut w = "// commentaire é → 𝛍\n".as_bytes().to_vec();
            w.extend_from_slice(&v);
            (w, "cli: non-ASCII comment")
        }
    }
}

/// file names a user may pass: the usual one, and names that stress path handling
fn file_name(tag: u64, name_kind: usize) -> std::ffi::OsString {
    use std::os::unix::ffi::OsStringExt;
    let base = format!("cli_{tag:016x}");
    match name_kind {
        1 => base.into(),                                   // no extension
        2 => format!("{base}.v1.2.sc").into(),              // several dots
        3 => format!("{base} with blanks.sc").into(),       // blanks
        4 => format!("{base}_éλ.sc").into(),                // non-ASCII (valid UTF-8)
        5 => {
            // a Latin-1 byte: not valid UTF-8
            let mut b = base.into_bytes();
            b.extend_from_slice(b"_caf\xe9.sc");
            std::ffi::OsString::from_vec(b)
        }
        6 => format!("{base}.SC").into(),
        _ => format!("{base}.sc").into(),
    }
}

pub fn c18_cli_case(ctx: &Ctx, exe: &PathBuf, input: &[u8], kind: &str) -> CaseResult {
    c18_cli_case_named(ctx, exe, input, kind, 0)
}

pub fn c18_cli_case_named(ctx: &Ctx, exe: &PathBuf, input: &[u8], kind: &str, name_kind: usize) -> CaseResult {
    let file = ctx.scratch.join(file_name(hash_str(&format!("{input:?}")), name_kind));
    if std::fs::write(&file, input).is_err() {
        return CaseResult::Discard("infra: cannot write scratch file".into());
    }
    let shown = String::from_utf8_lossy(input).into_owned();
    let fail = |summary: String| {
        CaseResult::Fail(Failure { kind: "cli".into(), summary, details: json!({"source_lossy": shown, "bytes": input, "input_kind": kind}) })
    };
    let mut classes = vec![kind.to_string(), format!("cli: file name kind {name_kind}")];
    let r = match run_scc_os(exe, &["-n".into(), "check".into()], &file, &[], 60) {
        Ok(r) => r,
        Err(e) => return CaseResult::Discard(format!("infra: cannot run scc: {e}")),
    };
    let accepted = match verdict(&r) {
        Ok(a) => a,
        Err(e) if e == "timeout" => return CaseResult::Discard("infra: scc check exceeded its time budget (inconclusive)".into()),
        Err(e) => {
            let _ = std::fs::remove_file(&file);
            return fail(format!("`scc check` dies on a {}-byte input ({kind}): {e}", input.len()));
        }
    };
    classes.push(if accepted { "cli: accepted".into() } else { "cli: error reported".into() });
    if accepted {
        // later stages through the binary, for programs with a valid entry point
        let valid = std::str::from_utf8(input)
            .ok()
            .and_then(|t| pipeline::parse(t).ok())
            .and_then(|p| pipeline::check(p).ok())
            .map_or(false, |c| super::c18::valid_entry(&c));
        if valid {
            for backend in ["x86-64", "rv64"] {
                let r = match run_scc_os(exe, &["-n".into(), "codegen".into()], &file, &[backend.to_string()], 60) {
                    Ok(r) => r,
                    Err(e) => return CaseResult::Discard(format!("infra: cannot run scc: {e}")),
                };
                match verdict(&r) {
                    Ok(_) => {}
                    Err(e) if e == "timeout" => return CaseResult::Discard("infra: scc codegen exceeded its time budget (inconclusive)".into()),
                    Err(e) => {
                        let err = String::from_utf8_lossy(&r.stderr);
                        // the documented capacity assertions and the RISC-V print limitation
                        // the capacity assertion is tolerated only for programs near the capacity
                        let arch = if backend == "rv64" { pipeline::Arch::Rv } else { pipeline::Arch::X86 };
                        let width = std::str::from_utf8(input)
                            .ok()
                            .and_then(|t| pipeline::front(t).ok())
                            .map_or(0, |c| crate::tc_axcut::max_env_linear(&c.linear));
                        let capacity = pipeline::is_capacity_panic(&err) && width >= pipeline::capacity_margin(arch);
                        if capacity || (backend == "rv64" && err.contains("not implemented in RISC-V backend")) {
                            classes.push("cli: capacity".into());
                            continue;
                        }
                        let _ = std::fs::remove_file(&file);
                        return fail(format!("`scc codegen {backend}` dies on an accepted program with a valid entry point: {e}"));
                    }
                }
            }
            classes.push("cli: code generated".into());
        }
    }
    let _ = std::fs::remove_file(&file);
    CaseResult::Pass { nontrivial: true, hash: hash_str(&format!("{input:?}")), classes, sample: Some(json!({"source_lossy": shown, "kind": kind})) }
}

// ------------------------------------------------------------------------------------------
// C16: `scc fmt --inplace`
// ------------------------------------------------------------------------------------------

pub fn c16_cli_case(ctx: &Ctx, exe: &PathBuf, text: &str, width: usize, indent: isize) -> CaseResult {
    c16_cli_case_mode(ctx, exe, text, width, indent, 0)
}

/// mode 0: --inplace; 1: -o onto the file itself, same spelling; 2: -o onto the file itself under
/// another spelling (./name, run from the file's directory); 3: -o to another file (the input must
/// stay untouched and the output must be the formatted program)
pub fn c16_cli_case_mode(ctx: &Ctx, exe: &PathBuf, text: &str, width: usize, indent: isize, mode: usize) -> CaseResult {
    if mode != 0 {
        return c16_output_case(ctx, exe, text, width, indent, mode);
    }
    let Ok(p1) = pipeline::parse(text) else { return CaseResult::Discard("input does not parse".into()) };
    let file = ctx.scratch.join(format!("fmt_{:016x}.sc", hash_str(&format!("{text}{width}{indent}"))));
    if std::fs::write(&file, text).is_err() {
        return CaseResult::Discard("infra: cannot write scratch file".into());
    }
    let fail = |kind: &str, summary: String, formatted: Option<String>| {
        CaseResult::Fail(Failure { kind: kind.into(), summary, details: json!({"source": text, "width": width, "indent": indent, "formatted": formatted}) })
    };
    let args = vec!["-n".to_string(), "fmt".into(), "--inplace".into(), "--width".into(), width.to_string(), "--indent".into(), indent.to_string(), file.display().to_string()];
    let mut texts = vec![];
    for round in 0..2 {
        let r = match run_scc(exe, &args, 60) {
            Ok(r) => r,
            Err(e) => return CaseResult::Discard(format!("infra: cannot run scc: {e}")),
        };
        match verdict(&r) {
            Ok(true) => {}
            Ok(false) => {
                let _ = std::fs::remove_file(&file);
                return if round == 0 {
                    fail("cli", format!("`scc fmt --inplace` reports an error on a file the parser accepts: {}", last_line(&r.stderr)), None)
                } else {
                    fail("unparsable", format!("`scc fmt --inplace` (width {width}, indent {indent}) leaves a file it cannot parse again: {}", last_line(&r.stderr)), texts.first().cloned())
                };
            }
            Err(e) if e == "timeout" => return CaseResult::Discard("infra: scc fmt exceeded its time budget (inconclusive)".into()),
            Err(e) => {
                let _ = std::fs::remove_file(&file);
                return fail("cli", format!("`scc fmt --inplace` dies: {e}"), None);
            }
        }
        match std::fs::read_to_string(&file) {
            Ok(t) => texts.push(t),
            Err(e) => return fail("cli", format!("the file is unreadable after `scc fmt --inplace`: {e}"), None),
        }
    }
    let _ = std::fs::remove_file(&file);
    let p2 = match pipeline::parse(&texts[0]) {
        Ok(p) => p,
        Err(e) => return fail("unparsable", format!("the file written by `scc fmt --inplace` (width {width}, indent {indent}) no longer parses: {}", &format!("{e}")[..format!("{e}").len().min(120)]), Some(texts[0].clone())),
    };
    if p1 != p2 {
        return fail("changed", format!("`scc fmt --inplace` at width {width}, indent {indent} changes the syntax tree"), Some(texts[0].clone()));
    }
    if texts[0] != texts[1] {
        return fail("unstable", format!("`scc fmt --inplace` at width {width}, indent {indent} is not idempotent"), Some(texts[0].clone()));
    }
    CaseResult::Pass {
        nontrivial: texts[0].lines().count() > 1,
        hash: hash_str(&format!("{text}{width}{indent}")),
        classes: vec!["cli: fmt --inplace".into()],
        sample: None,
    }
}

fn c16_output_case(ctx: &Ctx, exe: &PathBuf, text: &str, width: usize, indent: isize, mode: usize) -> CaseResult {
    let Ok(p1) = pipeline::parse(text) else { return CaseResult::Discard("input does not parse".into()) };
    let dir = ctx.scratch.join(format!("fmtdir_{:016x}_{mode}", hash_str(&format!("{text}{width}{indent}"))));
    if std::fs::create_dir_all(&dir).is_err() {
        return CaseResult::Discard("infra: cannot create scratch directory".into());
    }
    let name = "prog.sc";
    let file = dir.join(name);
    if std::fs::write(&file, text).is_err() {
        return CaseResult::Discard("infra: cannot write scratch file".into());
    }
    let (input_arg, output_arg, out_path) = match mode {
        1 => (name.to_string(), name.to_string(), file.clone()),
        2 => (name.to_string(), format!("./{name}"), file.clone()),
        _ => (name.to_string(), "out.sc".to_string(), dir.join("out.sc")),
    };
    let fail = |kind: &str, summary: String, formatted: Option<String>| {
        let _ = std::fs::remove_dir_all(&dir);
        CaseResult::Fail(Failure { kind: kind.into(), summary, details: json!({"source": text, "width": width, "indent": indent, "mode": mode, "formatted": formatted}) })
    };
    let script = format!(
        "ulimit -v 6000000; cd '{}' && exec '{}' -n fmt --width {width} --indent {indent} -o '{output_arg}' '{input_arg}'",
        dir.display(),
        exe.display()
    );
    let r = match run_with_timeout(std::path::Path::new("/bin/sh"), &["-c".to_string(), script], Duration::from_secs(60)) {
        Ok(r) => r,
        Err(e) => return CaseResult::Discard(format!("infra: cannot run scc: {e}")),
    };
    match verdict(&r) {
        Ok(true) => {}
        Ok(false) => return fail("cli", format!("`scc fmt -o` reports an error on a file the parser accepts: {}", last_line(&r.stderr)), None),
        Err(e) if e == "timeout" => return CaseResult::Discard("infra: scc fmt exceeded its time budget (inconclusive)".into()),
        Err(e) => return fail("cli", format!("`scc fmt -o` dies: {e}"), None),
    }
    let written = std::fs::read_to_string(&out_path).unwrap_or_default();
    let what = match mode {
        1 => "formatting a file onto itself with -o (same spelling)",
        2 => "formatting a file onto itself with -o under another spelling (./name)",
        _ => "formatting to another file with -o",
    };
    match pipeline::parse(&written) {
        Err(_) => return fail("unparsable", format!("{what} (width {width}, indent {indent}) leaves a file that does not parse"), Some(written)),
        Ok(p2) if p2 != p1 => return fail("changed", format!("{what} (width {width}, indent {indent}) changes the program (the written file has {} bytes)", written.len()), Some(written)),
        Ok(_) => {}
    }
    if mode == 3 {
        // the input must be untouched
        if std::fs::read_to_string(&file).unwrap_or_default() != text {
            return fail("changed", "formatting to another file modifies the input file".into(), None);
        }
    }
    let _ = std::fs::remove_dir_all(&dir);
    CaseResult::Pass { nontrivial: true, hash: hash_str(&format!("{text}{width}{indent}{mode}")), classes: vec![format!("cli: fmt -o mode {mode}")], sample: None }
}

//! Helpers shared by the checks that start from generated Fun programs.

use crate::fun_ast::Program;
use crate::ref_fun::{Outcome, RunStats};
use serde_json::{Value, json};

pub fn outcome_json(o: &Outcome) -> Value {
    match o {
        Outcome::Done { out, result } => json!({"stdout": String::from_utf8_lossy(out), "result": result}),
        Outcome::Undefined(w) => json!({"undefined": w}),
        Outcome::OutOfFuel => json!("out of fuel"),
        Outcome::Stuck(s) => json!({"stuck": s}),
    }
}

pub fn run_classes(st: &RunStats) -> Vec<String> {
    let mut c = vec![];
    let mut add = |b: bool, s: &str| {
        if b {
            c.push(s.to_string())
        }
    };
    add(st.user_calls > 0, "exec:call");
    add(st.cases > 0, "exec:case");
    add(st.dtors > 0, "exec:destructor");
    add(st.labels > 0, "exec:label");
    add(st.gotos > 0, "exec:goto");
    add(st.exits > 0, "exec:exit");
    add(st.prints > 0, "exec:print");
    add(st.forces > 1, "exec:thunk-forced>1");
    add(st.steps > 500, "exec:steps>500");
    c
}

pub fn nontrivial_run(st: &RunStats) -> bool {
    st.user_calls > 0 || st.cases > 0 || st.dtors > 0
}

pub fn program_classes(p: &Program) -> Vec<String> {
    let mut c = vec![];
    if p.types.iter().any(|t| t.codata) {
        c.push("prog:codata".to_string());
    }
    if p.types.iter().any(|t| t.xtors.iter().any(|x| x.args.len() > 3)) {
        c.push("prog:xtor>3fields".to_string());
    }
    if p.defs.len() > 2 {
        c.push("prog:defs>2".to_string());
    }
    c
}

use crate::runner::{CaseResult, Failure};

#[derive(Clone, Debug)]
pub struct FunCase {
    pub prog: Program,
    pub tuples: Vec<Vec<i64>>,
}

pub fn fun_case_json(c: &FunCase) -> Value {
    json!({"program": serde_json::to_value(&c.prog).unwrap(), "args": c.tuples, "source": crate::fun_ast::emit_program(&c.prog)})
}

pub fn fun_case_from_json(v: &Value) -> Option<FunCase> {
    let prog: Program = serde_json::from_value(v.get("program")?.clone()).ok()?;
    let tuples: Vec<Vec<i64>> = serde_json::from_value(v.get("args")?.clone()).ok()?;
    Some(FunCase { prog, tuples })
}

/// structural shrink of a failing Fun case; keeps the failure kind
pub fn shrink_fun_case(
    c: &FunCase,
    f: &Failure,
    budget: usize,
    run: &(dyn Fn(&Program, &[Vec<i64>]) -> CaseResult + Sync),
) -> (FunCase, Failure) {
    let kind = f.kind.clone();
    // fewer argument tuples first
    let mut tuples = c.tuples.clone();
    for i in 0..c.tuples.len() {
        let one = vec![c.tuples[i].clone()];
        if let CaseResult::Fail(f2) = run(&c.prog, &one) {
            if f2.kind == kind {
                tuples = one;
                break;
            }
        }
    }
    let test = |p: &Program| -> bool {
        match run(p, &tuples) {
            CaseResult::Fail(f2) => f2.kind == kind,
            _ => false,
        }
    };
    let small = crate::shrink_ast::shrink_program(&c.prog, budget, &test);
    // smaller argument values
    let mut tuples2 = tuples.clone();
    for i in 0..tuples2[0].len() {
        for cand in [0i64, 1, -1] {
            let mut t = tuples2.clone();
            if t[0][i] == cand {
                break;
            }
            t[0][i] = cand;
            if let CaseResult::Fail(f2) = run(&small, &t) {
                if f2.kind == kind {
                    tuples2 = t;
                    break;
                }
            }
        }
    }
    let out = FunCase { prog: small, tuples: tuples2 };
    match run(&out.prog, &out.tuples) {
        CaseResult::Fail(f2) => (out, f2),
        _ => (c.clone(), f.clone()),
    }
}

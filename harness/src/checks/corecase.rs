//! Second input domain of C03, C04 and C12: Core programs generated directly (gen_core), i.e.
//! "every well-typed Core program" and not only translation outputs.

use super::c02::compare;
use super::c03::unique_binders;
use super::c04::lifted_exact;
use super::common::*;
use crate::gen_core::{CoreCfg, CoreGenStats, gen_core};
use crate::mach_axcut;
use crate::mach_core;
use crate::pipeline::{self, Arch, StageError};
use crate::ref_fun::Outcome;
use crate::runner::*;
use crate::{tc_axcut, tc_core};
use core_lang::syntax as cs;
use printer::Print;
use serde_json::json;

#[derive(Clone, Copy, PartialEq, Eq)]
pub enum Mode {
    /// unfocused vs focused on the Core machine + binder uniqueness
    Focus,
    /// focused Core machine vs named AxCut machine on the shrunk program
    Shrink,
    /// every stage under catch_unwind + the independent checkers + all code generators
    Stages,
}

pub fn cfg_for(ctx: &Ctx, mode: Mode) -> CoreCfg {
    CoreCfg {
        size: ctx.tier.pick(28, 44),
        max_defs: 3,
        max_main_params: 3,
        reuse: 60,
        // the RISC-V generator (part of Stages) has no print
        allow_print: mode != Mode::Stages,
    }
}

pub fn decode(ctx: &Ctx, mode: Mode, bytes: &[u8]) -> (cs::Prog, Vec<Vec<i64>>, CoreGenStats) {
    gen_core(bytes, &cfg_for(ctx, mode))
}

fn classes_of(st: &CoreGenStats) -> Vec<String> {
    let mut c: Vec<String> = st.cut_shapes.iter().map(|s| format!("core-cut:{s}")).collect();
    c.sort();
    c.dedup();
    if st.shadowing > 0 {
        c.push("core:shadowing-binder".into());
    }
    if st.shared_xtor_names {
        c.push("core:xtor-name-shared-between-types".into());
    }
    if st.cns_fields {
        c.push("core:constructor-with-consumer-field".into());
    }
    if st.rec_calls > 0 {
        c.push("core:recursive-call".into());
    }
    if st.nonvalue_args >= 2 {
        c.push("core:nonvalue-args>=2".into());
    }
    c
}

fn fail(kind: &str, summary: String, details: serde_json::Value) -> CaseResult {
    CaseResult::Fail(Failure { kind: kind.into(), summary, details })
}

pub fn run(ctx: &Ctx, mode: Mode, bytes: &[u8]) -> CaseResult {
    let (prog, tuples, gs) = decode(ctx, mode, bytes);
    let core_text = prog.print_to_string(None);
    if let Err(e) = tc_core::check_prog(&prog) {
        // a defect of the generator, not of the compiler
        return CaseResult::Discard(format!("infra: generated Core program is ill-typed: {}", &e[..e.len().min(60)]));
    }
    let focused = match pipeline::focus(prog.clone()) {
        Ok(f) => f,
        Err(e) => return fail("internal", format!("focusing a well-typed Core program: {e}"), json!({"core": core_text})),
    };
    let focused_text = focused.print_to_string(None);
    let mut classes = classes_of(&gs);
    let hash = hash_str(&format!("{core_text}{tuples:?}"));
    match mode {
        Mode::Focus => {
            if let Some(e) = unique_binders(&focused) {
                return fail("binders", format!("focused program violates binder uniqueness: {e}"), json!({"core": core_text, "focused": focused_text}));
            }
            let fuel = ctx.tier.pick(40_000, 120_000);
            let src = mach_core::from_prog(&prog);
            let tgt = mach_core::from_fs_prog(&focused);
            let mut any = false;
            let mut nontrivial = false;
            for t in &tuples {
                let (o, st) = mach_core::run(&src, t, fuel);
                match &o {
                    Outcome::Stuck(s) => return CaseResult::Discard(format!("infra: generated Core program stuck: {}", &s[..s.len().min(40)])),
                    Outcome::Done { .. } => {}
                    _ => continue,
                }
                any = true;
                let (o2, _) = mach_core::run(&tgt, t, st.steps * 50 + 100_000);
                if let Some(why) = compare(&o, &o2) {
                    return fail(
                        "mismatch",
                        format!("focused program differs from the unfocused one (args {t:?}): {why}"),
                        json!({"args": t, "expected": outcome_json(&o), "observed": outcome_json(&o2), "core": core_text, "focused": focused_text}),
                    );
                }
                if st.reified_contexts >= 2 {
                    nontrivial = true;
                }
                if st.resumes > st.reified_contexts {
                    classes.push("context-resumed-more-than-once".into());
                }
            }
            if !any {
                return CaseResult::Discard("undefined or over budget".into());
            }
            CaseResult::Pass { nontrivial, hash, classes, sample: Some(json!({"core": core_text, "args": tuples})) }
        }
        Mode::Shrink => {
            let shrunk = match pipeline::shrink(focused.clone()) {
                Ok(s) => s,
                Err(e) => return fail("internal", format!("{e}"), json!({"core": core_text, "focused": focused_text})),
            };
            let dump = || json!({"core": core_text, "focused": focused_text, "axcut": shrunk.print_to_string(None)});
            if let Err(e) = lifted_exact(&shrunk) {
                return fail("lifted", format!("shrunk program: {e}"), dump());
            }
            if let Err(e) = tc_axcut::check_binders_unique(&shrunk) {
                return fail("binders", format!("shrunk program: {e}"), dump());
            }
            let fuel = ctx.tier.pick(60_000, 200_000);
            let src = mach_core::from_fs_prog(&focused);
            let mut any = false;
            for t in &tuples {
                let (o, st) = mach_core::run(&src, t, fuel);
                match &o {
                    Outcome::Stuck(s) => return CaseResult::Discard(format!("focused Core program stuck (C03's matter): {}", &s[..s.len().min(40)])),
                    Outcome::Done { .. } => {}
                    _ => continue,
                }
                any = true;
                let (o2, _) = mach_axcut::run_named(&shrunk, t, st.steps * 50 + 100_000);
                if let Some(why) = compare(&o, &o2) {
                    let mut d = dump();
                    d["args"] = json!(t);
                    d["expected"] = outcome_json(&o);
                    d["observed"] = outcome_json(&o2);
                    return fail("mismatch", format!("AxCut program differs from the focused Core program (args {t:?}): {why}"), d);
                }
            }
            if !any {
                return CaseResult::Discard("undefined or over budget".into());
            }
            let nontrivial = gs.cut_shapes.iter().any(|s| !s.starts_with("var|") && !s.ends_with("@int") && !s.contains("|covar@"));
            CaseResult::Pass { nontrivial, hash, classes, sample: Some(json!({"core": core_text, "args": tuples})) }
        }
        Mode::Stages => {
            if let Err(e) = tc_core::check_fs_prog(&focused) {
                return fail("illtyped", format!("focused program is ill-typed: {e}"), json!({"core": core_text, "focused": focused_text}));
            }
            let shrunk = match pipeline::shrink(focused.clone()) {
                Ok(s) => s,
                Err(e) => return fail("internal", format!("{e}"), json!({"core": core_text, "focused": focused_text})),
            };
            let ax_text = shrunk.print_to_string(None);
            if let Err(e) = tc_axcut::check_named(&shrunk) {
                return fail("illtyped", format!("shrunk program is ill-typed: {e}"), json!({"core": core_text, "focused": focused_text, "axcut": ax_text}));
            }
            let linear = match pipeline::linearize(shrunk.clone()) {
                Ok(l) => l,
                Err(e) => return fail("internal", format!("{e}"), json!({"core": core_text, "axcut": ax_text})),
            };
            if let Err(e) = tc_axcut::check_linear(&linear) {
                return fail(
                    "illtyped",
                    format!("linearized program is ill-typed: {e}"),
                    json!({"core": core_text, "axcut": ax_text, "linearized": linear.print_to_string(None)}),
                );
            }
            let mut generated = 0;
            for arch in [Arch::X86, Arch::A64, Arch::Rv] {
                match pipeline::codegen(linear.clone(), arch) {
                    Ok(_) => generated += 1,
                    Err(StageError::Panic { msg, .. }) if pipeline::is_capacity_panic(&msg) => {
                        classes.push(format!("capacity:{}", arch.name()));
                    }
                    Err(e) => {
                        return fail(
                            "internal",
                            format!("code generation for {}: {e}", arch.name()),
                            json!({"core": core_text, "linearized": linear.print_to_string(None)}),
                        );
                    }
                }
            }
            let nontrivial = generated >= 2 && linear.defs.len() > prog.defs.len();
            CaseResult::Pass { nontrivial, hash, classes, sample: Some(json!({"core": core_text})) }
        }
    }
}

pub fn print_samples(ctx: &Ctx, n: usize) {
    for (i, b) in buffers(ctx.seed, 77, n, 60, 1500).iter().enumerate() {
        let (p, t, gs) = decode(ctx, Mode::Focus, b);
        println!("---- sample {i} args {t:?} shapes {:?}", gs.cut_shapes);
        println!("{}", p.print_to_string(None));
        println!("tc: {:?}", tc_core::check_prog(&p));
    }
}

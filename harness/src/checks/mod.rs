pub mod c01;
pub mod c02;
pub mod c03;
pub mod c04;
pub mod c05;
pub mod c06;
pub mod c07;
pub mod c08;
pub mod c09;
pub mod c11;
pub mod c12;
pub mod c14;
pub mod c15;
pub mod c16;
pub mod c17;
pub mod c18;
pub mod c19;
pub mod c20;
pub mod backend;
pub mod cli;
pub mod common;
pub mod opmatrix;
pub mod corecase;

use crate::runner::Ctx;
use std::path::Path;

pub fn run_check(ctx: &Ctx) -> i32 {
    match ctx.id.as_str() {
        "C01" => c01::check(ctx),
        "C02" => c02::check(ctx),
        "C03" => c03::check(ctx),
        "C04" => c04::check(ctx),
        "C05" => c05::check(ctx),
        "C06" => c06::check(ctx),
        "C07" => c07::check(ctx),
        "C08" => c08::check(ctx),
        "C09" => c09::check(ctx),
        "C10" => c09::run(ctx, &c09::c10_spec(ctx)),
        "C13" => c09::run(ctx, &c09::c13_spec(ctx)),
        "C11" => c11::check(ctx),
        "C12" => c12::check(ctx),
        "C14" => c14::check(ctx),
        "C15" => c15::check(ctx),
        "C16" => c16::check(ctx),
        "C17" => c17::check(ctx),
        "C18" => c18::check(ctx),
        "C19" => c19::check(ctx),
        "C20" => c20::check(ctx),
        other => {
            eprintln!("unknown property {other}");
            2
        }
    }
}

pub fn run_replay(ctx: &Ctx, file: &Path) -> i32 {
    let Ok(s) = std::fs::read_to_string(file) else {
        eprintln!("cannot read {}", file.display());
        return 2;
    };
    let Ok(v) = serde_json::from_str::<serde_json::Value>(&s) else {
        eprintln!("not a replay file: {}", file.display());
        return 2;
    };
    let bytes = crate::runner::unhex(v["bytes"].as_str().unwrap_or(""));
    let sub = v["check"].as_str().unwrap_or("").to_string();
    let r = match ctx.id.as_str() {
        "C01" => c01::replay(ctx, &sub, &bytes, &v["case"]),
        "C02" => c02::replay(ctx, &sub, &bytes, &v["case"]),
        "C03" => c03::replay(ctx, &sub, &bytes, &v["case"]),
        "C04" => c04::replay(ctx, &sub, &bytes, &v["case"]),
        "C05" => c05::replay(ctx, &sub, &bytes, &v["case"]),
        "C06" => c06::replay(ctx, crate::pipeline::Arch::X86, &sub, &bytes, &v["case"]),
        "C07" => c06::replay(ctx, crate::pipeline::Arch::A64, &sub, &bytes, &v["case"]),
        "C08" => c08::replay(ctx, &sub, &bytes, &v["case"]),
        "C09" => c09::replay(ctx, &c09::c09_spec(ctx), &sub, &bytes, &v["case"]),
        "C11" => c11::replay(ctx, &sub, &bytes, &v["case"]),
        "C12" => c12::replay(ctx, &sub, &bytes, &v["case"]),
        "C14" => c14::replay(ctx, &sub, &bytes, &v["case"]),
        "C15" => c15::replay(ctx, &sub, &bytes, &v["case"]),
        "C16" => c16::replay(ctx, &sub, &bytes, &v["case"]),
        "C17" => c17::replay(ctx, &sub, &bytes, &v["case"]),
        "C18" => c18::replay(ctx, &sub, &bytes, &v["case"]),
        "C19" => c19::replay(ctx, &sub, &bytes, &v["case"]),
        "C20" => c20::replay(ctx, &sub, &bytes, &v["case"]),
        "C10" => c09::replay(ctx, &c09::c10_spec(ctx), &sub, &bytes, &v["case"]),
        "C13" => c09::replay(ctx, &c09::c13_spec(ctx), &sub, &bytes, &v["case"]),
        other => {
            eprintln!("unknown property {other}");
            return 2;
        }
    };
    match r {
        crate::runner::CaseResult::Fail(f) => {
            println!("{}", f.summary);
            println!("{}", serde_json::to_string_pretty(&f.details).unwrap());
            println!("VIOLATION property={} replay={}", ctx.id, file.display());
            1
        }
        crate::runner::CaseResult::Discard(w) => {
            println!("replay: case is discarded ({w})");
            0
        }
        crate::runner::CaseResult::Pass { .. } => {
            println!("replay: property holds on this case");
            0
        }
    }
}

pub fn print_samples(ctx: &Ctx, n: usize) {
    let bufs = crate::runner::buffers(ctx.seed, 0, n, 100, 3000);
    let cfg = crate::gen_fun::GenCfg::default();
    for b in bufs {
        let (p, tuples, st) = crate::gen_fun::gen_program_with_args(&b, &cfg, 2, true);
        println!("// ---- {:?}", st);
        println!("{}", crate::fun_ast::emit_program(&p));
        for t in tuples {
            let (o, rs) = crate::ref_fun::run(&p, &t, 20000);
            println!("// args {:?} => {:?}  steps={}", t, o, rs.steps);
        }
    }
}

pub fn run_shrink(ctx: &Ctx, file: &Path, budget: usize) -> i32 {
    let s = std::fs::read_to_string(file).expect("replay file");
    let v: serde_json::Value = serde_json::from_str(&s).expect("json");
    let bytes = crate::runner::unhex(v["bytes"].as_str().unwrap_or(""));
    let sub = v["check"].as_str().unwrap_or("").to_string();
    let f = |b: &[u8]| -> crate::runner::CaseResult {
        match ctx.id.as_str() {
            "C01" => c01::replay(ctx, &sub, b, &serde_json::Value::Null),
            _ => crate::runner::CaseResult::Discard("unknown".into()),
        }
    };
    let small = crate::runner::shrink(&bytes, budget, &|b| matches!(f(b), crate::runner::CaseResult::Fail(_)));
    if let crate::runner::CaseResult::Fail(fl) = f(&small) {
        let p = crate::runner::write_replay(ctx, &format!("{sub}-shrunk"), &small, &fl);
        println!("{} -> {} bytes: {}", bytes.len(), small.len(), p.display());
        println!("{}", fl.summary);
        if let Some(src) = fl.details.get("source").and_then(|s| s.as_str()) {
            println!("{src}");
        }
    }
    0
}

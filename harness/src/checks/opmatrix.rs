//! Exhaustive operator / comparison placement matrix for the backend checks (C06-C08): every
//! arithmetic operator and every comparison (two-operand and zero form) with the operands at
//! chosen positions of environments of chosen widths (registers, spill slots, both sides of each
//! backend's boundary), over all pairs of a set of boundary values.  Straight-line linear AxCut
//! programs built directly; oracle as for the other domains (emulator vs positional machine).

use super::backend::{LinCase, run_lin_case};
use crate::gen_lin::LinStats;
use crate::pipeline::Arch;
use crate::runner::*;
use axcut::syntax as ax;
use axcut::syntax::statements as st;
use rayon::prelude::*;
use std::rc::Rc;

const VALUES: [i64; 9] = [0, 1, -1, 7, -13, i64::MAX, i64::MIN, 1 << 31, -(1i64 << 31) - 1];

fn ident(n: &str, id: usize) -> ax::Identifier {
    ax::Identifier { name: n.to_string(), id }
}

#[derive(Clone, Copy, Debug)]
pub enum Test {
    Op(usize),
    /// comparison sort 0..6, two-operand
    Cmp2(usize),
    /// comparison sort 0..6 against zero
    Cmp0(usize),
}

fn sort_of(k: usize) -> st::ifc::IfSort {
    use st::ifc::IfSort::*;
    [Equal, NotEqual, Less, LessOrEqual, Greater, GreaterOrEqual][k].clone()
}

fn op_of(k: usize) -> ax::BinOp {
    match k {
        0 => ax::BinOp::Sum,
        1 => ax::BinOp::Sub,
        2 => ax::BinOp::Prod,
        3 => ax::BinOp::Div,
        _ => ax::BinOp::Rem,
    }
}

/// main(): n literals (v_p = a, v_q = b, the others distinct fillers), then the test
pub fn build(n: usize, p: usize, q: usize, a: i64, b: i64, test: Test, neighbour: usize) -> ax::Prog {
    let vars: Vec<ax::Identifier> = (0..n).map(|i| ident("v", i + 1)).collect();
    let w = ident("w", n + 1);
    let c1 = ident("c", n + 2);
    let c2 = ident("d", n + 3);
    let chk = ident("k", n + 4);
    let exit = |v: &ax::Identifier| ax::Statement::Exit(st::Exit { var: v.clone() });
    let lit = |v: &ax::Identifier, n: i64, next: ax::Statement| {
        ax::Statement::Literal(st::Literal { lit: n, var: v.clone(), next: Rc::new(next), free_vars_next: None })
    };
    let tail = match test {
        Test::Op(k) => {
            // w <- v_p op v_q; k <- w + v_neighbour; exit k   (a clobbered neighbour shows)
            let last = ax::Statement::Op(st::Op {
                fst: w.clone(),
                op: ax::BinOp::Sum,
                snd: vars[neighbour].clone(),
                var: chk.clone(),
                next: Rc::new(exit(&chk)),
                free_vars_next: None,
            });
            ax::Statement::Op(st::Op { fst: vars[p].clone(), op: op_of(k), snd: vars[q].clone(), var: w.clone(), next: Rc::new(last), free_vars_next: None })
        }
        Test::Cmp2(k) | Test::Cmp0(k) => {
            let snd = if matches!(test, Test::Cmp2(_)) { Some(vars[q].clone()) } else { None };
            // both branches also read a neighbour, so that a clobber by the comparison shows
            let branch = |c: &ax::Identifier, val: i64| {
                lit(
                    c,
                    val,
                    ax::Statement::Op(st::Op {
                        fst: c.clone(),
                        op: ax::BinOp::Sum,
                        snd: vars[neighbour].clone(),
                        var: chk.clone(),
                        next: Rc::new(exit(&chk)),
                        free_vars_next: None,
                    }),
                )
            };
            ax::Statement::IfC(st::IfC { sort: sort_of(k), fst: vars[p].clone(), snd, thenc: Rc::new(branch(&c1, 1000)), elsec: Rc::new(branch(&c2, 2000)) })
        }
    };
    let mut body = tail;
    for i in (0..n).rev() {
        let val = if i == p { a } else if i == q { b } else { 100 + i as i64 };
        body = lit(&vars[i], val, body);
    }
    ax::Prog { defs: vec![ax::Def { name: ident("main", 0), context: ax::TypingContext { bindings: vec![] }, body }], types: vec![], max_id: n + 4 }
}

/// widths and operand positions: around each backend's register/spill boundary
fn placements(arch: Arch) -> Vec<(usize, usize, usize)> {
    let widths: &[usize] = match arch {
        Arch::X86 => &[2, 5, 6, 7, 8, 12],
        Arch::A64 => &[2, 12, 13, 14, 15, 18],
        Arch::Rv => &[2, 6, 9, 10],
    };
    let mut out = vec![];
    for &n in widths {
        let mut pq = vec![(0, n - 1), (n - 1, 0), (n - 2, n - 1), (n - 1, n - 2), (n - 1, n - 1), (0, 0)];
        if n > 4 {
            pq.push((n / 2, n - 1));
            pq.push((n - 1, n / 2));
        }
        pq.dedup();
        for (p, q) in pq {
            out.push((n, p, q));
        }
    }
    out
}

pub fn run(ctx: &Ctx, arch: Arch, ev: &mut Evidence, report: &mut Report) {
    if !report.violations.is_empty() {
        return;
    }
    if !ev.rule.contains("placement matrix") {
        ev.rule.push_str(" Placement matrix (exhaustive in the thorough tier, every third configuration in the quick tier): every arithmetic operator and every comparison in two-operand and zero form, operands at the first/last/adjacent/middle positions of environments of six widths around the backend's register/spill boundary, over all pairs of nine boundary values (0, +-1, small, i64::MIN/MAX, +-2^31); a neighbouring variable is read afterwards so that a clobber shows; plus a literal matrix: all 256 combinations of the halfwords 0x0000/0xFFFF/0x8000/0x1234 materialised into a register and into a spill slot.");
    }
    let mut configs: Vec<(usize, usize, usize, i64, i64, Test, usize)> = vec![];
    let step = ctx.tier.pick(3, 1);
    let mut i = 0usize;
    for (n, p, q) in placements(arch) {
        for &a in &VALUES {
            for &b in &VALUES {
                let mut tests: Vec<Test> = (0..5).map(Test::Op).collect();
                tests.extend((0..6).map(Test::Cmp2));
                if b == VALUES[0] {
                    tests.extend((0..6).map(Test::Cmp0));
                }
                for t in tests {
                    if let Test::Op(k) = t {
                        // division is defined only for a non-zero divisor and without overflow
                        if k >= 3 && (b == 0 || (a == i64::MIN && b == -1)) {
                            continue;
                        }
                        if p == q && a != b {
                            continue;
                        }
                    }
                    if p == q && a != b {
                        continue;
                    }
                    i += 1;
                    if i % step != 0 {
                        continue;
                    }
                    // the neighbour read afterwards: first or last variable
                    let nb = if i % 2 == 0 { 0 } else { n - 1 };
                    configs.push((n, p, q, a, b, t, nb));
                }
            }
        }
    }
    // literal matrix: every combination of the halfwords 0x0000, 0xFFFF, 0x8000, 0x1234 in the four
    // 16-bit positions, materialised into the last variable of a narrow and of a wide environment
    // (register and spill target) and added to a zero
    let hw = [0x0000u64, 0xFFFF, 0x8000, 0x1234];
    let widths: [usize; 2] = match arch {
        Arch::X86 => [3, 9],
        Arch::A64 => [3, 16],
        Arch::Rv => [3, 9],
    };
    for c in 0..256usize {
        let v = (0..4).fold(0u64, |acc, k| acc | (hw[(c >> (2 * k)) & 3] << (16 * k))) as i64;
        for n in widths {
            configs.push((n, n - 1, 0, v, 0, Test::Op(0), 0));
        }
    }
    let results: Vec<(usize, CaseResult)> = configs
        .par_iter()
        .enumerate()
        .map(|(idx, (n, p, q, a, b, t, nb))| {
            let prog = build(*n, *p, *q, *a, *b, *t, *nb);
            let c = LinCase { prog, tuples: vec![vec![]], gstats: LinStats::default() };
            let (r, _) = run_lin_case(ctx, arch, &c, false);
            let r = match r {
                CaseResult::Pass { hash, .. } => CaseResult::Pass {
                    nontrivial: true,
                    hash: hash ^ hash_str(&format!("{n}{p}{q}{a}{b}{t:?}")),
                    classes: vec![format!("matrix:{}", match t {
                        Test::Op(k) => format!("op{k}"),
                        Test::Cmp2(k) => format!("cmp2-{k}"),
                        Test::Cmp0(k) => format!("cmp0-{k}"),
                    }), format!("matrix:width{n}")],
                    sample: None,
                },
                CaseResult::Fail(mut f) => {
                    f.summary = format!("operator/comparison matrix (width {n}, operands at {p} and {q}, values {a} and {b}, {t:?}): {}", f.summary);
                    f.details["matrix"] = serde_json::json!({"n": n, "p": p, "q": q, "a": a, "b": b, "test": format!("{t:?}"), "neighbour": nb});
                    CaseResult::Fail(f)
                }
                d => d,
            };
            (idx, r)
        })
        .collect();
    for (idx, r) in results {
        if let CaseResult::Fail(f) = &r {
            if report.violations.is_empty() {
                eprintln!("{}", f.summary);
                let (n, p, q, a, b, t, nb) = configs[idx];
                let code = match t {
                    Test::Op(k) => k,
                    Test::Cmp2(k) => 10 + k,
                    Test::Cmp0(k) => 20 + k,
                };
                report.violations.push(write_replay_with(ctx, "matrix", &[], f, serde_json::json!({"n": n, "p": p, "q": q, "a": a, "b": b, "test": code, "neighbour": nb})));
            }
        }
        ev.absorb(&r);
    }
}

pub fn replay(ctx: &Ctx, arch: Arch, case: &serde_json::Value) -> CaseResult {
    let g = |k: &str| case[k].as_u64().unwrap_or(0) as usize;
    let code = g("test");
    let t = if code >= 20 { Test::Cmp0(code - 20) } else if code >= 10 { Test::Cmp2(code - 10) } else { Test::Op(code) };
    let prog = build(g("n").max(1), g("p"), g("q"), case["a"].as_i64().unwrap_or(0), case["b"].as_i64().unwrap_or(0), t, g("neighbour"));
    run_lin_case(ctx, arch, &LinCase { prog, tuples: vec![vec![]], gstats: LinStats::default() }, false).0
}

//! Choice-sequence reader: the single source of randomness for every generator.
//!
//! A generator is an ordinary recursive function over a `Chooser`.  The chooser reads a byte
//! buffer; index mapping is monotone (smaller byte => earlier alternative), byte 0 always selects
//! alternative 0 (by convention the simplest one) and an exhausted buffer yields 0.  Shorter and
//! smaller buffers therefore mean smaller generated values, which is what lets proptest's
//! `Vec<u8>` shrinking (and libFuzzer's mutation) work on the decoded structures.

pub struct Chooser<'a> {
    buf: &'a [u8],
    pos: usize,
}

impl<'a> Chooser<'a> {
    pub fn new(buf: &'a [u8]) -> Self {
        Chooser { buf, pos: 0 }
    }

    pub fn exhausted(&self) -> bool {
        self.pos >= self.buf.len()
    }

    pub fn used(&self) -> usize {
        self.pos
    }

    pub fn byte(&mut self) -> u8 {
        if self.pos < self.buf.len() {
            let b = self.buf[self.pos];
            self.pos += 1;
            b
        } else {
            0
        }
    }

    /// A number in `0..n` (n >= 1), monotone in the byte read.
    pub fn choose(&mut self, n: usize) -> usize {
        if n <= 1 {
            return 0;
        }
        if n <= 256 {
            (self.byte() as usize * n) >> 8
        } else {
            let hi = self.byte() as usize;
            let lo = self.byte() as usize;
            (((hi << 8) | lo) * n) >> 16
        }
    }

    /// true with probability about num/256 (never when the buffer is exhausted).
    pub fn prob(&mut self, num: u32) -> bool {
        // high bytes mean "yes" so that byte 0 is always "no"
        (self.byte() as u32) >= 256 - num.min(256)
    }

    pub fn boolean(&mut self) -> bool {
        self.byte() >= 128
    }

    /// integer in lo..=hi (inclusive), monotone
    pub fn int_in(&mut self, lo: i64, hi: i64) -> i64 {
        debug_assert!(lo <= hi);
        let span = (hi - lo) as u64 + 1;
        if span <= 256 {
            lo + ((self.byte() as u64 * span) >> 8) as i64
        } else if span <= 65536 {
            let hi8 = self.byte() as u64;
            let lo8 = self.byte() as u64;
            lo + ((((hi8 << 8) | lo8) * span) >> 16) as i64
        } else {
            let mut v: u64 = 0;
            for _ in 0..4 {
                v = (v << 8) | self.byte() as u64;
            }
            lo + (((v as u128 * span as u128) >> 32) as u64) as i64
        }
    }

    /// pick an index according to weights; alternative 0 is chosen by byte 0.
    pub fn weighted(&mut self, weights: &[u32]) -> usize {
        let total: u32 = weights.iter().sum();
        if total == 0 {
            return 0;
        }
        let x = if total <= 256 {
            ((self.byte() as u32) * total) >> 8
        } else {
            let hi = self.byte() as u32;
            let lo = self.byte() as u32;
            (((hi << 8) | lo) * total) >> 16
        };
        let mut acc = 0;
        for (i, w) in weights.iter().enumerate() {
            acc += w;
            if x < acc {
                return i;
            }
        }
        weights.len() - 1
    }

    pub fn raw_u64(&mut self) -> u64 {
        let mut v: u64 = 0;
        for _ in 0..8 {
            v = (v << 8) | self.byte() as u64;
        }
        v
    }

    /// A 64-bit integer biased to boundaries; 0 is the simplest.
    pub fn interesting_i64(&mut self) -> i64 {
        const B: [i64; 40] = [
            0,
            1,
            2,
            3,
            -1,
            -2,
            5,
            7,
            10,
            -10,
            9,
            99,
            100,
            127,
            128,
            255,
            256,
            -128,
            -129,
            32767,
            32768,
            65535,
            65536,
            -32768,
            -65536,
            2147483647,
            2147483648,
            -2147483648,
            -2147483649,
            4294967295,
            4294967296,
            4294967297,
            0x0000_ffff_0000,
            0x1234_5678_9abc_def0,
            -0x1234_5678_9abc_def0,
            i64::MAX,
            i64::MAX - 1,
            i64::MIN + 1,
            i64::MIN,
            -4294967296,
        ];
        match self.weighted(&[120, 60, 40, 36]) {
            0 => self.int_in(0, 12),
            1 => self.int_in(-20, 120),
            2 => B[self.choose(B.len())],
            _ => self.raw_u64() as i64,
        }
    }
}

//! Emulator for exactly the AArch64 instruction subset the backend prints, parsing the printed
//! text.  See DESIGN.md 3.4 and Appendix A.

use crate::emu_common::*;
use crate::mach_axcut::PrintEvent;
use std::collections::HashMap;

const SP: usize = 31;
const XZR: usize = 32;
const NREGS: usize = 33;

pub fn reg_index(name: &str) -> Option<usize> {
    match name {
        "SP" => Some(SP),
        "XZR" => Some(XZR),
        _ => {
            let n: usize = name.strip_prefix('X')?.parse().ok()?;
            if n <= 30 { Some(n) } else { None }
        }
    }
}

fn reg_name(r: usize) -> String {
    match r {
        SP => "SP".into(),
        XZR => "XZR".into(),
        n => format!("X{n}"),
    }
}

#[derive(Clone, Copy, Debug)]
enum RI {
    R(usize),
    I(i64),
}

#[derive(Clone, Copy, Debug, PartialEq, Eq)]
enum Cc {
    Eq,
    Ne,
    Lt,
    Le,
    Gt,
    Ge,
}

#[derive(Clone, Debug)]
enum Ins {
    Add(usize, usize, RI),
    Sub(usize, usize, RI),
    Mul(usize, usize, usize),
    Sdiv(usize, usize, usize),
    Msub(usize, usize, usize, usize),
    B(String),
    Br(usize),
    Bl(String),
    Adr(usize, String),
    Mov(usize, usize),
    Movz(usize, i64, i64),
    Movn(usize, i64, i64),
    Movk(usize, i64, i64),
    Ldr(usize, usize, i64),
    Str(usize, usize, i64),
    LdpPost(usize, usize, usize, i64),
    StpPre(usize, usize, usize, i64),
    Cmp(usize, RI),
    /// CBZ (true) / CBNZ (false)
    Cbz(bool, usize, String),
    /// AND / ORR / EOR (register or immediate second operand), TST sets flags only
    Logic(u8, usize, usize, RI),
    Tst(usize, RI),
    /// LSL / LSR / ASR by an immediate
    Shift(u8, usize, usize, i64),
    Neg(usize, usize),
    Madd(usize, usize, usize, usize),
    MovImm(usize, i64),
    /// CSEL d, n, m, cc / CSET d, cc
    Csel(usize, usize, usize, Cc),
    Cset(usize, Cc),
    /// plain (signed-offset) pair forms: LDP/STP t1, t2, [n, imm]
    LdpOff(usize, usize, usize, i64),
    StpOff(usize, usize, usize, i64),
    Bcc(Cc, String),
    Ret,
    Marker(Marker),
}

fn cond(cc: Cc, f: Flags) -> bool {
    match cc {
        Cc::Eq => f.z,
        Cc::Ne => !f.z,
        Cc::Lt => f.n != f.v,
        Cc::Le => f.z || f.n != f.v,
        Cc::Gt => !f.z && f.n == f.v,
        Cc::Ge => f.n == f.v,
    }
}

pub struct Program {
    ins: Vec<Ins>,
    addr: Vec<u64>,
    by_addr: HashMap<u64, usize>,
    labels: HashMap<String, usize>,
}

fn int(s: &str) -> Option<i64> {
    s.trim().parse().ok()
}

fn ri(s: &str) -> Option<RI> {
    let s = s.trim();
    reg_index(s).map(RI::R).or_else(|| int(s).map(RI::I))
}

pub fn parse(text: &str) -> Result<Program, Fault> {
    let mut ins = vec![];
    let mut labels = HashMap::new();
    for line in text.lines() {
        let l = line.trim();
        if l.is_empty() {
            continue;
        }
        if let Some(c) = l.strip_prefix("//") {
            if let Some(m) = parse_marker(c) {
                ins.push(Ins::Marker(m));
            }
            continue;
        }
        if l == ".text" || l.starts_with(".global ") {
            continue;
        }
        if let Some(name) = l.strip_suffix(':') {
            if !name.contains(' ') {
                if labels.insert(name.to_string(), ins.len()).is_some() {
                    return Err(Fault::Unsupported(format!("label {name} defined twice")));
                }
                continue;
            }
        }
        let bad = || Fault::Unsupported(format!("aarch64 line `{l}`"));
        let (mn, rest) = match l.split_once(' ') {
            Some((m, r)) => (m, r.trim()),
            None => (l, ""),
        };
        // operands: split on commas, brackets are separate tokens after trimming "[", "]", "]!"
        let ops: Vec<String> = rest
            .split(',')
            .map(|s| s.trim().trim_start_matches('[').trim_end_matches('!').trim_end_matches(']').trim().to_string())
            .collect();
        let r = |i: usize| -> Option<usize> { ops.get(i).and_then(|s| reg_index(s)) };
        let i = match mn {
            "ADD" | "SUB" => {
                let (d, n, m) = (r(0), r(1), ops.get(2).and_then(|s| ri(s)));
                match (d, n, m) {
                    (Some(d), Some(n), Some(m)) => Some(if mn == "ADD" { Ins::Add(d, n, m) } else { Ins::Sub(d, n, m) }),
                    _ => None,
                }
            }
            "MUL" => Some(Ins::Mul(r(0).ok_or_else(bad)?, r(1).ok_or_else(bad)?, r(2).ok_or_else(bad)?)),
            "SDIV" => Some(Ins::Sdiv(r(0).ok_or_else(bad)?, r(1).ok_or_else(bad)?, r(2).ok_or_else(bad)?)),
            "MSUB" => Some(Ins::Msub(
                r(0).ok_or_else(bad)?,
                r(1).ok_or_else(bad)?,
                r(2).ok_or_else(bad)?,
                r(3).ok_or_else(bad)?,
            )),
            "B" => Some(Ins::B(rest.to_string())),
            "BR" => r(0).map(Ins::Br),
            "BL" => Some(Ins::Bl(rest.to_string())),
            "ADR" => Some(Ins::Adr(r(0).ok_or_else(bad)?, ops.get(1).ok_or_else(bad)?.clone())),
            "MOV" => match (r(0), r(1), ops.get(1).and_then(|s| int(s.trim_start_matches('#')))) {
                (Some(d), Some(s), _) => Some(Ins::Mov(d, s)),
                (Some(d), None, Some(i)) => Some(Ins::MovImm(d, i)),
                _ => None,
            },
            "CBZ" | "CBNZ" => Some(Ins::Cbz(mn == "CBZ", r(0).ok_or_else(bad)?, ops.get(1).ok_or_else(bad)?.clone())),
            "AND" | "ORR" | "EOR" => {
                let k = match mn {
                    "AND" => 0,
                    "ORR" => 1,
                    _ => 2,
                };
                Some(Ins::Logic(k, r(0).ok_or_else(bad)?, r(1).ok_or_else(bad)?, ops.get(2).and_then(|s| ri(s.trim_start_matches('#'))).ok_or_else(bad)?))
            }
            "TST" => Some(Ins::Tst(r(0).ok_or_else(bad)?, ops.get(1).and_then(|s| ri(s.trim_start_matches('#'))).ok_or_else(bad)?)),
            "LSL" | "LSR" | "ASR" => {
                let k = match mn {
                    "LSL" => 0,
                    "LSR" => 1,
                    _ => 2,
                };
                let n = ops.get(2).and_then(|s| int(s.trim_start_matches('#'))).filter(|n| (0..64).contains(n)).ok_or_else(bad)?;
                Some(Ins::Shift(k, r(0).ok_or_else(bad)?, r(1).ok_or_else(bad)?, n))
            }
            "NEG" => Some(Ins::Neg(r(0).ok_or_else(bad)?, r(1).ok_or_else(bad)?)),
            "MADD" => Some(Ins::Madd(r(0).ok_or_else(bad)?, r(1).ok_or_else(bad)?, r(2).ok_or_else(bad)?, r(3).ok_or_else(bad)?)),
            "CSEL" | "CSET" => {
                let cc = |s: &str| match s.trim() {
                    "EQ" => Some(Cc::Eq),
                    "NE" => Some(Cc::Ne),
                    "LT" => Some(Cc::Lt),
                    "LE" => Some(Cc::Le),
                    "GT" => Some(Cc::Gt),
                    "GE" => Some(Cc::Ge),
                    _ => None,
                };
                if mn == "CSEL" {
                    Some(Ins::Csel(r(0).ok_or_else(bad)?, r(1).ok_or_else(bad)?, r(2).ok_or_else(bad)?, ops.get(3).and_then(|s| cc(s)).ok_or_else(bad)?))
                } else {
                    Some(Ins::Cset(r(0).ok_or_else(bad)?, ops.get(1).and_then(|s| cc(s)).ok_or_else(bad)?))
                }
            }
            "NOP" => Some(Ins::Mov(XZR, XZR)),
            "B.EQ" => Some(Ins::Bcc(Cc::Eq, rest.to_string())),
            "B.NE" => Some(Ins::Bcc(Cc::Ne, rest.to_string())),
            "B.LT" => Some(Ins::Bcc(Cc::Lt, rest.to_string())),
            "B.LE" => Some(Ins::Bcc(Cc::Le, rest.to_string())),
            "B.GT" => Some(Ins::Bcc(Cc::Gt, rest.to_string())),
            "B.GE" => Some(Ins::Bcc(Cc::Ge, rest.to_string())),
            "MOVZ" | "MOVN" | "MOVK" => {
                let d = r(0).ok_or_else(bad)?;
                let imm = ops.get(1).and_then(|s| int(s)).ok_or_else(bad)?;
                let sh = ops.get(2).and_then(|s| s.strip_prefix("LSL")).and_then(int).ok_or_else(bad)?;
                Some(match mn {
                    "MOVZ" => Ins::Movz(d, imm, sh),
                    "MOVN" => Ins::Movn(d, imm, sh),
                    _ => Ins::Movk(d, imm, sh),
                })
            }
            "LDR" | "STR" => {
                let t = r(0).ok_or_else(bad)?;
                let n = r(1).ok_or_else(bad)?;
                let off = ops.get(2).and_then(|s| int(s)).ok_or_else(bad)?;
                Some(if mn == "LDR" { Ins::Ldr(t, n, off) } else { Ins::Str(t, n, off) })
            }
            "LDP" => {
                // LDP X1, X2, [ SP ], imm   (post-index)   or   LDP X1, X2, [ SP, imm ]   (signed offset)
                if !rest.contains("],") && !rest.contains("] ,") {
                    if rest.ends_with(']') {
                        let off = ops.get(3).and_then(|s| int(s)).unwrap_or(0);
                        ins.push(Ins::LdpOff(r(0).ok_or_else(bad)?, r(1).ok_or_else(bad)?, r(2).ok_or_else(bad)?, off));
                        continue;
                    }
                    return Err(bad());
                }
                Some(Ins::LdpPost(
                    r(0).ok_or_else(bad)?,
                    r(1).ok_or_else(bad)?,
                    r(2).ok_or_else(bad)?,
                    ops.get(3).and_then(|s| int(s)).ok_or_else(bad)?,
                ))
            }
            "STP" => {
                // STP X1, X2, [ SP, imm ]!   (pre-index)   or   STP X1, X2, [ SP, imm ]   (signed offset)
                if !rest.ends_with("]!") {
                    if rest.ends_with(']') {
                        let off = ops.get(3).and_then(|s| int(s)).unwrap_or(0);
                        ins.push(Ins::StpOff(r(0).ok_or_else(bad)?, r(1).ok_or_else(bad)?, r(2).ok_or_else(bad)?, off));
                        continue;
                    }
                    return Err(bad());
                }
                Some(Ins::StpPre(
                    r(0).ok_or_else(bad)?,
                    r(1).ok_or_else(bad)?,
                    r(2).ok_or_else(bad)?,
                    ops.get(3).and_then(|s| int(s)).ok_or_else(bad)?,
                ))
            }
            "CMP" => Some(Ins::Cmp(r(0).ok_or_else(bad)?, ops.get(1).and_then(|s| ri(s)).ok_or_else(bad)?)),
            "BEQ" => Some(Ins::Bcc(Cc::Eq, rest.to_string())),
            "BNE" => Some(Ins::Bcc(Cc::Ne, rest.to_string())),
            "BLT" => Some(Ins::Bcc(Cc::Lt, rest.to_string())),
            "BLE" => Some(Ins::Bcc(Cc::Le, rest.to_string())),
            "BGT" => Some(Ins::Bcc(Cc::Gt, rest.to_string())),
            "BGE" => Some(Ins::Bcc(Cc::Ge, rest.to_string())),
            "RET" => Some(Ins::Ret),
            _ => None,
        };
        match i {
            Some(i) => ins.push(i),
            None => return Err(bad()),
        }
    }
    let mut addr = Vec::with_capacity(ins.len() + 1);
    let mut by_addr = HashMap::new();
    let mut a = CODE_BASE;
    for (i, x) in ins.iter().enumerate() {
        addr.push(a);
        by_addr.entry(a).or_insert(i);
        if !matches!(x, Ins::Marker(_)) {
            a += 4;
        }
    }
    addr.push(a);
    // a jump to the address of a label continues at the label, not at a marker that stands
    // directly in front of it (a statement that emits no instruction, e.g. a match on a type
    // without constructors, leaves its marker there)
    for &i in labels.values() {
        if i < addr.len() {
            by_addr.insert(addr[i], i);
        }
    }
    Ok(Program { ins, addr, by_addr, labels })
}

#[derive(Clone, Copy)]
struct Flags {
    z: bool,
    n: bool,
    v: bool,
}

#[derive(Clone, Copy, Debug)]
pub enum FstLoc {
    Reg(usize),
    Spill(i64),
}

static FST: std::sync::OnceLock<Vec<FstLoc>> = std::sync::OnceLock::new();

pub fn fst_locations(n: usize) -> Vec<FstLoc> {
    FST.get_or_init(|| {
        use axcut2backend::config::TemporaryNumber;
        use axcut2backend::utils::Utils;
        use printer::Print;
        let mut out = vec![];
        let mut ctx = axcut::syntax::TypingContext { bindings: vec![] };
        for i in 0..n {
            let r = crate::pipeline::guarded(|| {
                <axcut2aarch64::Backend as Utils<axcut2aarch64::config::Temporary>>::fresh_temporary(TemporaryNumber::Fst, &ctx)
            });
            match r {
                Ok(axcut2aarch64::config::Temporary::Register(r)) => {
                    let name = r.print_to_string(None);
                    out.push(FstLoc::Reg(reg_index(&name).unwrap_or(0)));
                }
                Ok(axcut2aarch64::config::Temporary::Spill(s)) => {
                    out.push(FstLoc::Spill(axcut2aarch64::config::stack_offset(s).val));
                }
                Err(_) => break,
            }
            ctx.bindings.push(axcut::syntax::ContextBinding {
                var: axcut::syntax::Identifier { name: "v".into(), id: i + 1 },
                chi: axcut::syntax::Chirality::Ext,
                ty: axcut::syntax::Ty::I64,
            });
        }
        out
    })
    .clone()
}

pub struct Emu<'p> {
    prog: &'p Program,
    pub regs: [Word; NREGS],
    flags: Option<Flags>,
    pub mem: Mem,
    pub events: Vec<PrintEvent>,
    entry_sp: u64,
    sentinels: [u64; NREGS],
    fst_map: Vec<FstLoc>,
}

impl View for Emu<'_> {
    fn var_fst(&self, position: usize) -> Result<Word, Fault> {
        match self.fst_map.get(position) {
            Some(FstLoc::Reg(r)) => Ok(self.regs[*r]),
            Some(FstLoc::Spill(off)) => {
                let sp = self.regs[SP].def().ok_or_else(|| Fault::UndefUse("SP".into()))?;
                self.mem.load(sp.wrapping_add(*off as u64), sp, "audit")
            }
            None => Err(Fault::Unsupported("environment beyond the backend's capacity".into())),
        }
    }
    fn heap_reg(&self) -> Word {
        self.regs[0]
    }
    fn free_reg(&self) -> Word {
        self.regs[1]
    }
    fn mem(&self) -> &Mem {
        &self.mem
    }
}

impl<'p> Emu<'p> {
    pub fn new(prog: &'p Program, args: &[i64], heap_words: usize) -> Self {
        let mut regs = [Word::Undef; NREGS];
        let mut mem = Mem::new(heap_words, 1 << 14);
        let entry_sp = STACK_TOP - 64;
        mem.frame_top = entry_sp;
        regs[SP] = Word::Def(entry_sp);
        regs[XZR] = Word::Def(0);
        let mut sentinels = [0u64; NREGS];
        for r in 19..=29 {
            sentinels[r] = 0x5e00_0000_0000_0000 | ((r as u64) << 8) | 0x99;
            regs[r] = Word::Def(sentinels[r]);
        }
        regs[30] = Word::Def(RET_SENTINEL);
        regs[0] = Word::Def(HEAP_BASE);
        for (i, a) in args.iter().enumerate().take(7) {
            regs[i + 1] = Word::Def(*a as u64);
        }
        Emu { prog, regs, flags: None, mem, events: vec![], entry_sp, sentinels, fst_map: fst_locations(140) }
    }

    fn get(&self, r: usize) -> Word {
        if r == XZR { Word::Def(0) } else { self.regs[r] }
    }

    fn set(&mut self, r: usize, w: Word) {
        if r != XZR {
            self.regs[r] = w;
        }
    }

    fn need(&self, r: usize, what: &str) -> Result<u64, Fault> {
        self.get(r)
            .def()
            .ok_or_else(|| Fault::UndefUse(format!("{what}: register {} is undefined", reg_name(r))))
    }

    fn need_ri(&self, x: RI, what: &str) -> Result<u64, Fault> {
        match x {
            RI::R(r) => self.need(r, what),
            RI::I(i) => Ok(i as u64),
        }
    }

    fn sp(&self) -> Result<u64, Fault> {
        self.need(SP, "stack pointer")
    }

    fn mem_addr(&self, base: usize, off: i64, what: &str) -> Result<u64, Fault> {
        let b = self.need(base, what)?;
        if base == SP && b % 16 != 0 {
            return Err(Fault::CallingConvention(format!("{what}: SP {b:#x} is not 16-byte aligned at a stack access")));
        }
        Ok(b.wrapping_add(off as u64))
    }

    fn target(&self, label: &str) -> Result<usize, Fault> {
        self.prog
            .labels
            .get(label)
            .copied()
            .ok_or_else(|| Fault::BadJump(format!("undefined label {label}")))
    }

    pub fn run(&mut self, max_steps: u64, mut audit: Option<Auditor>) -> EmuResult {
        let mut steps = 0u64;
        let mut markers_seen = 0u64;
        let mut max_depth = 0u64;
        let outcome = (|| -> Result<u64, Fault> {
            let mut pc = self.target("asm_main")?;
            loop {
                if pc >= self.prog.ins.len() {
                    return Err(Fault::BadJump("fell off the end of the code".into()));
                }
                steps += 1;
                if steps > max_steps {
                    return Err(Fault::StepBudget);
                }
                let ins = self.prog.ins[pc].clone();
                let mut next = pc + 1;
                match ins {
                    Ins::Marker(m) => {
                        markers_seen += 1;
                        if let Some(a) = audit.as_mut() {
                            a(&*self, &m).map_err(Fault::HeapAudit)?;
                        }
                    }
                    Ins::Add(d, n, m) => {
                        let v = self.need(n, "ADD")?.wrapping_add(self.need_ri(m, "ADD")?);
                        self.set(d, Word::Def(v));
                    }
                    Ins::Sub(d, n, m) => {
                        let v = self.need(n, "SUB")?.wrapping_sub(self.need_ri(m, "SUB")?);
                        self.set(d, Word::Def(v));
                    }
                    Ins::Mul(d, n, m) => {
                        let v = self.need(n, "MUL")?.wrapping_mul(self.need(m, "MUL")?);
                        self.set(d, Word::Def(v));
                    }
                    Ins::Sdiv(d, n, m) => {
                        let a = self.need(n, "SDIV")? as i64;
                        let b = self.need(m, "SDIV")? as i64;
                        let v = if b == 0 { 0 } else { a.wrapping_div(b) };
                        self.set(d, Word::Def(v as u64));
                    }
                    Ins::Msub(d, n, m, a) => {
                        let v = self.need(a, "MSUB")?.wrapping_sub(self.need(n, "MSUB")?.wrapping_mul(self.need(m, "MSUB")?));
                        self.set(d, Word::Def(v));
                    }
                    Ins::B(l) => next = self.target(&l)?,
                    Ins::Br(r) => {
                        let a = self.need(r, "indirect jump")?;
                        next = *self
                            .prog
                            .by_addr
                            .get(&a)
                            .ok_or_else(|| Fault::BadJump(format!("indirect jump to {a:#x}")))?;
                    }
                    Ins::Bl(f) => {
                        let newline = match f.as_str() {
                            "print_i64" => false,
                            "println_i64" => true,
                            _ => return Err(Fault::Unsupported(format!("BL {f}"))),
                        };
                        let sp = self.sp()?;
                        if sp % 16 != 0 {
                            return Err(Fault::CallingConvention(format!("SP {sp:#x} is not 16-byte aligned at BL {f}")));
                        }
                        let v = self.need(0, "argument of the print call")?;
                        self.events.push(PrintEvent { newline, value: v as i64 });
                        for r in 0..=18 {
                            self.regs[r] = Word::Undef;
                        }
                        self.regs[30] = Word::Undef;
                        self.flags = None;
                        self.mem.poison_below(sp);
                    }
                    Ins::Adr(d, l) => {
                        let t = self.target(&l)?;
                        self.set(d, Word::Def(self.prog.addr[t]));
                    }
                    Ins::Mov(d, s) => {
                        let w = self.get(s);
                        self.set(d, w);
                    }
                    Ins::Movz(d, imm, sh) => self.set(d, Word::Def(((imm as u64) & 0xffff) << sh)),
                    Ins::Movn(d, imm, sh) => self.set(d, Word::Def(!(((imm as u64) & 0xffff) << sh))),
                    Ins::Movk(d, imm, sh) => {
                        let old = self.need(d, "MOVK")?;
                        let mask = 0xffffu64 << sh;
                        self.set(d, Word::Def((old & !mask) | (((imm as u64) & 0xffff) << sh)));
                    }
                    Ins::Ldr(t, n, off) => {
                        let a = self.mem_addr(n, off, "LDR")?;
                        let w = self.mem.load(a, self.sp()?, "LDR")?;
                        self.set(t, w);
                    }
                    Ins::Str(t, n, off) => {
                        let a = self.mem_addr(n, off, "STR")?;
                        let w = self.get(t);
                        let sp = self.sp()?;
                        self.mem.store(a, w, sp, "STR")?;
                    }
                    Ins::LdpPost(t1, t2, n, imm) => {
                        let a = self.mem_addr(n, 0, "LDP")?;
                        let sp = self.sp()?;
                        let w1 = self.mem.load(a, sp, "LDP")?;
                        let w2 = self.mem.load(a + 8, sp, "LDP")?;
                        self.set(t1, w1);
                        self.set(t2, w2);
                        self.set(n, Word::Def(a.wrapping_add(imm as u64)));
                    }
                    Ins::StpPre(t1, t2, n, imm) => {
                        let b = self.need(n, "STP")?;
                        let a = b.wrapping_add(imm as u64);
                        if n == SP && a % 16 != 0 {
                            return Err(Fault::CallingConvention(format!("STP: SP {a:#x} not 16-byte aligned")));
                        }
                        self.set(n, Word::Def(a));
                        let sp = self.sp()?;
                        let (w1, w2) = (self.get(t1), self.get(t2));
                        self.mem.store(a, w1, sp, "STP")?;
                        self.mem.store(a + 8, w2, sp, "STP")?;
                    }
                    Ins::Cmp(n, m) => {
                        let x = self.need(n, "CMP")? as i64;
                        let y = self.need_ri(m, "CMP")? as i64;
                        let (r, v) = x.overflowing_sub(y);
                        self.flags = Some(Flags { z: r == 0, n: r < 0, v });
                    }
                    Ins::Cbz(zero, r, l) => {
                        let v = self.need(r, "CBZ/CBNZ")?;
                        if (v == 0) == zero {
                            next = self.target(&l)?;
                        }
                    }
                    Ins::Logic(k, d, n, m) => {
                        let a = self.need(n, "logic")?;
                        let b = self.need_ri(m, "logic")?;
                        self.set(d, Word::Def(match k {
                            0 => a & b,
                            1 => a | b,
                            _ => a ^ b,
                        }));
                    }
                    Ins::Tst(n, m) => {
                        let r = (self.need(n, "TST")? & self.need_ri(m, "TST")?) as i64;
                        self.flags = Some(Flags { z: r == 0, n: r < 0, v: false });
                    }
                    Ins::Shift(k, d, n, sh) => {
                        let a = self.need(n, "shift")?;
                        self.set(d, Word::Def(match k {
                            0 => a << sh,
                            1 => a >> sh,
                            _ => ((a as i64) >> sh) as u64,
                        }));
                    }
                    Ins::Neg(d, n) => {
                        let a = self.need(n, "NEG")?;
                        self.set(d, Word::Def(0u64.wrapping_sub(a)));
                    }
                    Ins::Madd(d, n, m, a) => {
                        let x = self.need(n, "MADD")?;
                        let y = self.need(m, "MADD")?;
                        let z = self.need(a, "MADD")?;
                        self.set(d, Word::Def(z.wrapping_add(x.wrapping_mul(y))));
                    }
                    Ins::MovImm(d, i) => self.set(d, Word::Def(i as u64)),
                    Ins::Csel(d, n, m, cc) => {
                        let f = self.flags.ok_or_else(|| Fault::UndefUse("conditional select on undefined flags".into()))?;
                        let w = if cond(cc, f) { self.get(n) } else { self.get(m) };
                        self.set(d, w);
                    }
                    Ins::Cset(d, cc) => {
                        let f = self.flags.ok_or_else(|| Fault::UndefUse("conditional set on undefined flags".into()))?;
                        self.set(d, Word::Def(cond(cc, f) as u64));
                    }
                    Ins::LdpOff(t1, t2, n, off) => {
                        let a = self.mem_addr(n, off, "LDP")?;
                        let sp = self.sp()?;
                        let w1 = self.mem.load(a, sp, "LDP")?;
                        let w2 = self.mem.load(a.wrapping_add(8), sp, "LDP")?;
                        self.set(t1, w1);
                        self.set(t2, w2);
                    }
                    Ins::StpOff(t1, t2, n, off) => {
                        let a = self.mem_addr(n, off, "STP")?;
                        let sp = self.sp()?;
                        let (w1, w2) = (self.get(t1), self.get(t2));
                        self.mem.store(a, w1, sp, "STP")?;
                        self.mem.store(a.wrapping_add(8), w2, sp, "STP")?;
                    }
                    Ins::Bcc(cc, l) => {
                        let f = self.flags.ok_or_else(|| Fault::UndefUse("conditional branch on undefined flags".into()))?;
                        let take = match cc {
                            Cc::Eq => f.z,
                            Cc::Ne => !f.z,
                            Cc::Lt => f.n != f.v,
                            Cc::Le => f.z || f.n != f.v,
                            Cc::Gt => !f.z && f.n == f.v,
                            Cc::Ge => f.n == f.v,
                        };
                        if take {
                            next = self.target(&l)?;
                        }
                    }
                    Ins::Ret => {
                        let ra = self.need(30, "RET: link register")?;
                        let sp = self.sp()?;
                        if ra != RET_SENTINEL || sp != self.entry_sp {
                            return Err(Fault::CallingConvention(format!(
                                "RET with SP {sp:#x} (entry {:#x}), link register {ra:#x}",
                                self.entry_sp
                            )));
                        }
                        for r in 19..=29 {
                            if self.regs[r] != Word::Def(self.sentinels[r]) {
                                return Err(Fault::CallingConvention(format!("callee-saved register X{r} not restored")));
                            }
                        }
                        return self.need(0, "return value");
                    }
                }
                if let Word::Def(sp) = self.regs[SP] {
                    max_depth = max_depth.max(self.entry_sp.saturating_sub(sp));
                }
                pc = next;
            }
        })();
        EmuResult {
            events: std::mem::take(&mut self.events),
            outcome,
            steps,
            heap_high_water: self.mem.heap_high_water,
            markers_seen,
            max_sp_depth: max_depth,
        }
    }
}

pub fn run_text(text: &str, args: &[i64], max_steps: u64, heap_words: usize, audit: Option<Auditor>) -> EmuResult {
    match parse(text) {
        Ok(p) => {
            let mut e = Emu::new(&p, args, heap_words);
            e.run(max_steps, audit)
        }
        Err(f) => EmuResult { events: vec![], outcome: Err(f), steps: 0, heap_high_water: 0, markers_seen: 0, max_sp_depth: 0 },
    }
}

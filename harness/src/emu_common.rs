//! Shared pieces of the three emulators: tagged memory, faults, results, the view the heap
//! auditor gets at statement-boundary markers.

use crate::mach_axcut::PrintEvent;

pub const HEAP_BASE: u64 = 0x1000_0000;
pub const STACK_TOP: u64 = 0x7fff_0000;
pub const CODE_BASE: u64 = 0x40_0000;
pub const RET_SENTINEL: u64 = 0xdead_0000_beef_0008;

/// A machine word that may be undefined ("poison"): moving, pushing and storing it is allowed,
/// using it as an address, in a comparison, as a jump target, as an argument of an external call
/// or as the result is a fault.
#[derive(Clone, Copy, Debug, PartialEq, Eq)]
pub enum Word {
    Def(u64),
    Undef,
}

impl Word {
    pub fn def(self) -> Option<u64> {
        match self {
            Word::Def(v) => Some(v),
            Word::Undef => None,
        }
    }
}

#[derive(Clone, Debug, PartialEq, Eq)]
pub enum Fault {
    UndefUse(String),
    BadAddress(String),
    BadJump(String),
    Align(String),
    CallingConvention(String),
    DivideError,
    StepBudget,
    /// the emulator does not understand the text: harness problem, never a violation by itself
    Unsupported(String),
    HeapAudit(String),
}

impl std::fmt::Display for Fault {
    fn fmt(&self, f: &mut std::fmt::Formatter<'_>) -> std::fmt::Result {
        match self {
            Fault::UndefUse(s) => write!(f, "use of an undefined value: {s}"),
            Fault::BadAddress(s) => write!(f, "memory access outside heap and own frame: {s}"),
            Fault::BadJump(s) => write!(f, "jump to a non-instruction address: {s}"),
            Fault::Align(s) => write!(f, "alignment: {s}"),
            Fault::CallingConvention(s) => write!(f, "calling convention: {s}"),
            Fault::DivideError => write!(f, "division error (divide by zero or overflow)"),
            Fault::StepBudget => write!(f, "step budget exhausted (divergence)"),
            Fault::Unsupported(s) => write!(f, "emulator: unsupported: {s}"),
            Fault::HeapAudit(s) => write!(f, "heap audit: {s}"),
        }
    }
}

pub struct Mem {
    pub heap: Vec<u64>,
    pub heap_def: Vec<bool>,
    pub heap_words: usize,
    pub stack: Vec<u64>,
    pub stack_def: Vec<bool>,
    pub stack_words: usize,
    /// highest heap byte address written so far (exclusive), relative to HEAP_BASE
    pub heap_high_water: u64,
    /// accesses above this address (the caller's frame) are faults
    pub frame_top: u64,
}

impl Mem {
    pub fn new(heap_words: usize, stack_words: usize) -> Self {
        Mem {
            heap: vec![0; heap_words],
            heap_def: vec![true; heap_words],
            heap_words,
            stack: vec![0; stack_words],
            stack_def: vec![false; stack_words],
            stack_words,
            heap_high_water: 0,
            frame_top: STACK_TOP,
        }
    }

    pub fn in_heap(&self, addr: u64) -> bool {
        addr >= HEAP_BASE && addr < HEAP_BASE + 8 * self.heap_words as u64
    }

    fn stack_low(&self) -> u64 {
        STACK_TOP - 8 * self.stack_words as u64
    }

    /// `sp` = current stack pointer: the frame is [sp, frame_top)
    pub fn load(&self, addr: u64, sp: u64, what: &str) -> Result<Word, Fault> {
        if addr % 8 != 0 {
            return Err(Fault::Align(format!("{what}: unaligned load at {addr:#x}")));
        }
        if self.in_heap(addr) {
            let i = ((addr - HEAP_BASE) / 8) as usize;
            return Ok(if self.heap_def[i] { Word::Def(self.heap[i]) } else { Word::Undef });
        }
        if addr >= sp && addr < self.frame_top && addr >= self.stack_low() {
            let i = ((addr - self.stack_low()) / 8) as usize;
            return Ok(if self.stack_def[i] { Word::Def(self.stack[i]) } else { Word::Undef });
        }
        Err(Fault::BadAddress(format!("{what}: load at {addr:#x} (sp = {sp:#x})")))
    }

    pub fn store(&mut self, addr: u64, w: Word, sp: u64, what: &str) -> Result<(), Fault> {
        if addr % 8 != 0 {
            return Err(Fault::Align(format!("{what}: unaligned store at {addr:#x}")));
        }
        if self.in_heap(addr) {
            let i = ((addr - HEAP_BASE) / 8) as usize;
            match w {
                Word::Def(v) => {
                    self.heap[i] = v;
                    self.heap_def[i] = true;
                }
                Word::Undef => self.heap_def[i] = false,
            }
            self.heap_high_water = self.heap_high_water.max(addr - HEAP_BASE + 8);
            return Ok(());
        }
        if addr >= sp && addr < self.frame_top && addr >= self.stack_low() {
            let i = ((addr - self.stack_low()) / 8) as usize;
            match w {
                Word::Def(v) => {
                    self.stack[i] = v;
                    self.stack_def[i] = true;
                }
                Word::Undef => self.stack_def[i] = false,
            }
            return Ok(());
        }
        Err(Fault::BadAddress(format!("{what}: store at {addr:#x} (sp = {sp:#x})")))
    }

    /// an external call may clobber everything below the stack pointer
    pub fn poison_below(&mut self, sp: u64) {
        let low = self.stack_low();
        if sp <= low {
            return;
        }
        let n = (((sp.min(STACK_TOP)) - low) / 8) as usize;
        for d in &mut self.stack_def[..n] {
            *d = false;
        }
    }

    /// raw heap read for the auditor (no frame rules)
    pub fn heap_word(&self, addr: u64) -> Option<Word> {
        if addr % 8 != 0 || !self.in_heap(addr) {
            return None;
        }
        let i = ((addr - HEAP_BASE) / 8) as usize;
        Some(if self.heap_def[i] { Word::Def(self.heap[i]) } else { Word::Undef })
    }
}

/// environment description carried by an `@env` marker comment
#[derive(Clone, Debug, PartialEq, Eq)]
pub struct Marker {
    /// for each variable of the environment: true = it owns a heap reference (prd/cns), false = ext
    pub kinds: Vec<bool>,
    pub text: String,
}

pub fn parse_marker(comment: &str) -> Option<Marker> {
    // "@env x_1:ext y_2:prd z:cns"
    let rest = comment.trim().strip_prefix("@env")?;
    let mut kinds = vec![];
    for tok in rest.split_whitespace() {
        let (_, k) = tok.rsplit_once(':')?;
        kinds.push(match k {
            "ext" => false,
            "prd" | "cns" => true,
            _ => return None,
        });
    }
    Some(Marker { kinds, text: rest.trim().to_string() })
}

/// What the heap auditor may look at when the emulator stands at a marker.
pub trait View {
    /// value of the first temporary of the variable at `position` of the environment
    fn var_fst(&self, position: usize) -> Result<Word, Fault>;
    fn heap_reg(&self) -> Word;
    fn free_reg(&self) -> Word;
    fn mem(&self) -> &Mem;
}

pub type Auditor<'a> = &'a mut dyn FnMut(&dyn View, &Marker) -> Result<(), String>;

#[derive(Debug, Clone)]
pub struct EmuResult {
    pub events: Vec<PrintEvent>,
    /// Ok(value in the return register) or the fault that stopped the run
    pub outcome: Result<u64, Fault>,
    pub steps: u64,
    pub heap_high_water: u64,
    pub markers_seen: u64,
    pub max_sp_depth: u64,
}

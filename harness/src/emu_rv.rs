//! Emulator for the RISC-V backend's pseudo-assembly (operands separated by blanks, `LW`/`SW`
//! read as 64-bit accesses).  Execution starts at the first label with X2 = heap, X3 = heap + 64
//! and main's parameters in the second temporaries of the first environment positions; it stops
//! at `cleanup:` with the result in X10.  See DESIGN.md 3.4 and Appendix A.

use crate::emu_common::*;
use std::collections::HashMap;

fn reg(s: &str) -> Option<usize> {
    let n: usize = s.strip_prefix('X')?.parse().ok()?;
    if n < 32 { Some(n) } else { None }
}

#[derive(Clone, Copy, Debug)]
enum RI {
    R(usize),
    I(i64),
}

#[derive(Clone, Copy, Debug, PartialEq, Eq)]
enum Cc {
    Eq,
    Ne,
    Lt,
    Le,
    Gt,
    Ge,
}

#[derive(Clone, Debug)]
enum Ins {
    Add(usize, usize, RI),
    Sub(usize, usize, usize),
    Mul(usize, usize, usize),
    Div(usize, usize, usize),
    Rem(usize, usize, usize),
    Jal(usize, String),
    Jalr(usize, usize, i64),
    La(usize, String),
    Li(usize, i64),
    Mv(usize, usize),
    Lw(usize, i64, usize),
    Sw(usize, i64, usize),
    Br(Cc, usize, usize, String),
    /// and / or / xor / sll / srl / sra with register or immediate second operand
    Alu(u8, usize, usize, RI),
    Marker(Marker),
}

pub struct Program {
    ins: Vec<Ins>,
    addr: Vec<u64>,
    by_addr: HashMap<u64, usize>,
    labels: HashMap<String, usize>,
    first_label: Option<String>,
}

pub fn parse(text: &str) -> Result<Program, Fault> {
    let mut ins = vec![];
    let mut labels = HashMap::new();
    let mut first_label = None;
    for line in text.lines() {
        let mut l = line.trim();
        if l.is_empty() {
            continue;
        }
        // the routine's first line is "// actual code" glued to the first element
        if let Some(c) = l.strip_prefix("//") {
            if let Some(m) = parse_marker(c) {
                ins.push(Ins::Marker(m));
            }
            // a comment line never carries an instruction, except the header which may be
            // directly followed by one (no separator is printed)
            if let Some(rest) = c.trim().strip_prefix("actual code") {
                l = rest.trim();
                if l.is_empty() {
                    continue;
                }
            } else {
                continue;
            }
        }
        if let Some(name) = l.strip_suffix(':') {
            if !name.contains(' ') {
                if labels.insert(name.to_string(), ins.len()).is_some() {
                    return Err(Fault::Unsupported(format!("label {name} defined twice")));
                }
                if first_label.is_none() {
                    first_label = Some(name.to_string());
                }
                continue;
            }
        }
        let bad = || Fault::Unsupported(format!("rv64 line `{l}`"));
        let t: Vec<&str> = l.split_whitespace().collect();
        let r = |i: usize| -> Result<usize, Fault> { t.get(i).and_then(|s| reg(s)).ok_or_else(bad) };
        let imm = |i: usize| -> Result<i64, Fault> { t.get(i).and_then(|s| s.parse().ok()).ok_or_else(bad) };
        let lab = |i: usize| -> Result<String, Fault> { t.get(i).map(|s| s.to_string()).ok_or_else(bad) };
        let i = match t[0] {
            "ADD" => {
                let third = t.get(3).ok_or_else(bad)?;
                let x = match reg(third) {
                    Some(r) => RI::R(r),
                    None => RI::I(third.parse().map_err(|_| bad())?),
                };
                Ins::Add(r(1)?, r(2)?, x)
            }
            "SUB" => Ins::Sub(r(1)?, r(2)?, r(3)?),
            "MUL" => Ins::Mul(r(1)?, r(2)?, r(3)?),
            "DIV" => Ins::Div(r(1)?, r(2)?, r(3)?),
            "REM" => Ins::Rem(r(1)?, r(2)?, r(3)?),
            "JAL" => Ins::Jal(r(1)?, lab(2)?),
            "JALR" => Ins::Jalr(r(1)?, r(2)?, imm(3)?),
            "LA" => Ins::La(r(1)?, lab(2)?),
            "LI" => Ins::Li(r(1)?, imm(2)?),
            "MV" => Ins::Mv(r(1)?, r(2)?),
            "LW" => Ins::Lw(r(1)?, imm(2)?, r(3)?),
            "SW" => Ins::Sw(r(1)?, imm(2)?, r(3)?),
            "BEQ" => Ins::Br(Cc::Eq, r(1)?, r(2)?, lab(3)?),
            "BNE" => Ins::Br(Cc::Ne, r(1)?, r(2)?, lab(3)?),
            "BLT" => Ins::Br(Cc::Lt, r(1)?, r(2)?, lab(3)?),
            "BLE" => Ins::Br(Cc::Le, r(1)?, r(2)?, lab(3)?),
            "BGT" => Ins::Br(Cc::Gt, r(1)?, r(2)?, lab(3)?),
            "BGE" => Ins::Br(Cc::Ge, r(1)?, r(2)?, lab(3)?),
            // common base instructions and pseudo-instructions the backend does not use (yet)
            "ADDI" => Ins::Add(r(1)?, r(2)?, RI::I(imm(3)?)),
            "AND" | "OR" | "XOR" | "SLL" | "SRL" | "SRA" => Ins::Alu(["AND", "OR", "XOR", "SLL", "SRL", "SRA"].iter().position(|m| *m == t[0]).unwrap() as u8, r(1)?, r(2)?, RI::R(r(3)?)),
            "ANDI" | "ORI" | "XORI" | "SLLI" | "SRLI" | "SRAI" => {
                Ins::Alu(["ANDI", "ORI", "XORI", "SLLI", "SRLI", "SRAI"].iter().position(|m| *m == t[0]).unwrap() as u8, r(1)?, r(2)?, RI::I(imm(3)?))
            }
            "NEG" => Ins::Sub(r(1)?, 0, r(2)?),
            "BEQZ" => Ins::Br(Cc::Eq, r(1)?, 0, lab(2)?),
            "BNEZ" => Ins::Br(Cc::Ne, r(1)?, 0, lab(2)?),
            "BLTZ" => Ins::Br(Cc::Lt, r(1)?, 0, lab(2)?),
            "BGEZ" => Ins::Br(Cc::Ge, r(1)?, 0, lab(2)?),
            "BLEZ" => Ins::Br(Cc::Le, r(1)?, 0, lab(2)?),
            "BGTZ" => Ins::Br(Cc::Gt, r(1)?, 0, lab(2)?),
            "J" => Ins::Jal(0, lab(1)?),
            "JR" => Ins::Jalr(0, r(1)?, 0),
            "NOP" => Ins::Add(0, 0, RI::I(0)),
            "LD" => Ins::Lw(r(1)?, imm(2)?, r(3)?),
            "SD" => Ins::Sw(r(1)?, imm(2)?, r(3)?),
            _ => return Err(bad()),
        };
        ins.push(i);
    }
    let mut addr = Vec::with_capacity(ins.len() + 1);
    let mut by_addr = HashMap::new();
    let mut a = CODE_BASE;
    for (i, x) in ins.iter().enumerate() {
        addr.push(a);
        by_addr.entry(a).or_insert(i);
        if !matches!(x, Ins::Marker(_)) {
            a += 4;
        }
    }
    addr.push(a);
    // a jump to the address of a label continues at the label, not at a marker that stands
    // directly in front of it (a statement that emits no instruction, e.g. a match on a type
    // without constructors, leaves its marker there)
    for &i in labels.values() {
        if i < addr.len() {
            by_addr.insert(addr[i], i);
        }
    }
    Ok(Program { ins, addr, by_addr, labels, first_label })
}

static FST: std::sync::OnceLock<Vec<usize>> = std::sync::OnceLock::new();

fn fst_regs() -> Vec<usize> {
    FST.get_or_init(|| {
        use axcut2backend::config::TemporaryNumber;
        use axcut2backend::utils::Utils;
        let mut out = vec![];
        let mut ctx = axcut::syntax::TypingContext { bindings: vec![] };
        for i in 0..20 {
            let r = crate::pipeline::guarded(|| {
                <axcut2rv64::Backend as Utils<axcut2rv64::config::Register>>::fresh_temporary(TemporaryNumber::Fst, &ctx)
            });
            match r {
                Ok(r) => out.push(r.0),
                Err(_) => break,
            }
            ctx.bindings.push(axcut::syntax::ContextBinding {
                var: axcut::syntax::Identifier { name: "v".into(), id: i + 1 },
                chi: axcut::syntax::Chirality::Ext,
                ty: axcut::syntax::Ty::I64,
            });
        }
        out
    })
    .clone()
}

/// register holding main's parameter number i (second temporary of position i)
pub fn param_reg(i: usize) -> Option<usize> {
    use axcut2backend::config::TemporaryNumber;
    use axcut2backend::utils::Utils;
    let mut ctx = axcut::syntax::TypingContext { bindings: vec![] };
    for k in 0..i {
        ctx.bindings.push(axcut::syntax::ContextBinding {
            var: axcut::syntax::Identifier { name: "v".into(), id: k + 1 },
            chi: axcut::syntax::Chirality::Ext,
            ty: axcut::syntax::Ty::I64,
        });
    }
    crate::pipeline::guarded(|| {
        <axcut2rv64::Backend as Utils<axcut2rv64::config::Register>>::fresh_temporary(TemporaryNumber::Snd, &ctx)
    })
    .ok()
    .map(|r| r.0)
}

pub struct Emu<'p> {
    prog: &'p Program,
    pub regs: [Word; 32],
    pub mem: Mem,
    fst: Vec<usize>,
}

impl View for Emu<'_> {
    fn var_fst(&self, position: usize) -> Result<Word, Fault> {
        match self.fst.get(position) {
            Some(r) => Ok(self.regs[*r]),
            None => Err(Fault::Unsupported("environment beyond the backend's capacity".into())),
        }
    }
    fn heap_reg(&self) -> Word {
        self.regs[2]
    }
    fn free_reg(&self) -> Word {
        self.regs[3]
    }
    fn mem(&self) -> &Mem {
        &self.mem
    }
}

impl<'p> Emu<'p> {
    pub fn new(prog: &'p Program, args: &[i64], heap_words: usize) -> Result<Self, Fault> {
        let mut regs = [Word::Undef; 32];
        regs[0] = Word::Def(0);
        regs[2] = Word::Def(HEAP_BASE);
        regs[3] = Word::Def(HEAP_BASE + 64);
        for (i, a) in args.iter().enumerate() {
            let r = param_reg(i).ok_or_else(|| Fault::Unsupported("too many parameters".into()))?;
            regs[r] = Word::Def(*a as u64);
        }
        Ok(Emu { prog, regs, mem: Mem::new(heap_words, 8), fst: fst_regs() })
    }

    fn get(&self, r: usize) -> Word {
        if r == 0 { Word::Def(0) } else { self.regs[r] }
    }

    fn set(&mut self, r: usize, w: Word) {
        if r != 0 {
            self.regs[r] = w;
        }
    }

    fn need(&self, r: usize, what: &str) -> Result<u64, Fault> {
        self.get(r).def().ok_or_else(|| Fault::UndefUse(format!("{what}: register X{r} is undefined")))
    }

    fn target(&self, label: &str) -> Result<usize, Fault> {
        self.prog
            .labels
            .get(label)
            .copied()
            .ok_or_else(|| Fault::BadJump(format!("undefined label {label}")))
    }

    pub fn run(&mut self, max_steps: u64, mut audit: Option<Auditor>) -> EmuResult {
        let mut steps = 0u64;
        let mut markers_seen = 0u64;
        let cleanup = self.prog.labels.get("cleanup").copied();
        let outcome = (|| -> Result<u64, Fault> {
            let first = self.prog.first_label.clone().ok_or_else(|| Fault::Unsupported("no label".into()))?;
            let mut pc = self.target(&first)?;
            loop {
                if Some(pc) == cleanup {
                    return self.need(10, "result register");
                }
                if pc >= self.prog.ins.len() {
                    return Err(Fault::BadJump("fell off the end of the code".into()));
                }
                steps += 1;
                if steps > max_steps {
                    return Err(Fault::StepBudget);
                }
                let ins = self.prog.ins[pc].clone();
                let mut next = pc + 1;
                // no stack: every address must be in the heap
                let sp = STACK_TOP;
                match ins {
                    Ins::Marker(m) => {
                        markers_seen += 1;
                        if let Some(a) = audit.as_mut() {
                            a(&*self, &m).map_err(Fault::HeapAudit)?;
                        }
                    }
                    Ins::Add(d, a, b) => {
                        let y = match b {
                            RI::R(r) => self.need(r, "ADD")?,
                            RI::I(i) => i as u64,
                        };
                        let v = self.need(a, "ADD")?.wrapping_add(y);
                        self.set(d, Word::Def(v));
                    }
                    Ins::Sub(d, a, b) => {
                        let v = self.need(a, "SUB")?.wrapping_sub(self.need(b, "SUB")?);
                        self.set(d, Word::Def(v));
                    }
                    Ins::Mul(d, a, b) => {
                        let v = self.need(a, "MUL")?.wrapping_mul(self.need(b, "MUL")?);
                        self.set(d, Word::Def(v));
                    }
                    Ins::Div(d, a, b) => {
                        let x = self.need(a, "DIV")? as i64;
                        let y = self.need(b, "DIV")? as i64;
                        let v = if y == 0 { -1 } else { x.wrapping_div(y) };
                        self.set(d, Word::Def(v as u64));
                    }
                    Ins::Rem(d, a, b) => {
                        let x = self.need(a, "REM")? as i64;
                        let y = self.need(b, "REM")? as i64;
                        let v = if y == 0 { x } else { x.wrapping_rem(y) };
                        self.set(d, Word::Def(v as u64));
                    }
                    Ins::Jal(d, l) => {
                        let t = self.target(&l)?;
                        self.set(d, Word::Def(self.prog.addr[pc] + 4));
                        next = t;
                    }
                    Ins::Jalr(d, r, off) => {
                        let a = self.need(r, "indirect jump")?.wrapping_add(off as u64);
                        self.set(d, Word::Def(self.prog.addr[pc] + 4));
                        next = *self
                            .prog
                            .by_addr
                            .get(&a)
                            .ok_or_else(|| Fault::BadJump(format!("indirect jump to {a:#x}")))?;
                    }
                    Ins::La(d, l) => {
                        let t = self.target(&l)?;
                        self.set(d, Word::Def(self.prog.addr[t]));
                    }
                    Ins::Li(d, i) => self.set(d, Word::Def(i as u64)),
                    Ins::Mv(d, s) => {
                        let w = self.get(s);
                        self.set(d, w);
                    }
                    Ins::Lw(d, off, base) => {
                        let a = self.need(base, "LW")?.wrapping_add(off as u64);
                        let w = self.mem.load(a, sp, "LW")?;
                        self.set(d, w);
                    }
                    Ins::Sw(s, off, base) => {
                        let a = self.need(base, "SW")?.wrapping_add(off as u64);
                        let w = self.get(s);
                        self.mem.store(a, w, sp, "SW")?;
                    }
                    Ins::Alu(k, d, a, b) => {
                        let x = self.need(a, "ALU")?;
                        let y = match b {
                            RI::R(r) => self.need(r, "ALU")?,
                            RI::I(i) => i as u64,
                        };
                        let v = match k {
                            0 => x & y,
                            1 => x | y,
                            2 => x ^ y,
                            3 => x << (y & 63),
                            4 => x >> (y & 63),
                            _ => ((x as i64) >> (y & 63)) as u64,
                        };
                        self.set(d, Word::Def(v));
                    }
                    Ins::Br(cc, a, b, l) => {
                        let x = self.need(a, "branch")? as i64;
                        let y = self.need(b, "branch")? as i64;
                        let take = match cc {
                            Cc::Eq => x == y,
                            Cc::Ne => x != y,
                            Cc::Lt => x < y,
                            Cc::Le => x <= y,
                            Cc::Gt => x > y,
                            Cc::Ge => x >= y,
                        };
                        if take {
                            next = self.target(&l)?;
                        }
                    }
                }
                pc = next;
            }
        })();
        EmuResult {
            events: vec![],
            outcome,
            steps,
            heap_high_water: self.mem.heap_high_water,
            markers_seen,
            max_sp_depth: 0,
        }
    }
}

pub fn run_text(text: &str, args: &[i64], max_steps: u64, heap_words: usize, audit: Option<Auditor>) -> EmuResult {
    let fail = |f: Fault| EmuResult { events: vec![], outcome: Err(f), steps: 0, heap_high_water: 0, markers_seen: 0, max_sp_depth: 0 };
    match parse(text) {
        Ok(p) => match Emu::new(&p, args, heap_words) {
            Ok(mut e) => e.run(max_steps, audit),
            Err(f) => fail(f),
        },
        Err(f) => fail(f),
    }
}

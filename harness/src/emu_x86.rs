//! Emulator for exactly the x86-64 instruction subset the backend prints (NASM syntax), parsing
//! the printed text.  See DESIGN.md 3.4 and Appendix A.

use crate::emu_common::*;
use crate::mach_axcut::PrintEvent;
use std::collections::HashMap;

const REGS: [&str; 16] = [
    "rax", "rcx", "rdx", "rbx", "rsp", "rbp", "rsi", "rdi", "r8", "r9", "r10", "r11", "r12", "r13", "r14", "r15",
];
const RAX: usize = 0;
const RCX: usize = 1;
const RDX: usize = 2;
const RBX: usize = 3;
const RSP: usize = 4;
const RBP: usize = 5;
const RSI: usize = 6;
const RDI: usize = 7;
const CALLEE_SAVED: [usize; 6] = [RBX, RBP, 12, 13, 14, 15];
const CALLER_SAVED: [usize; 9] = [RAX, RCX, RDX, RSI, RDI, 8, 9, 10, 11];
const ARG_REGS: [usize; 6] = [RDI, RSI, RDX, RCX, 8, 9];

pub fn reg_index(name: &str) -> Option<usize> {
    REGS.iter().position(|r| *r == name)
}

#[derive(Clone, Copy, Debug)]
enum Opd {
    R(usize),
    M(usize, i64),
    I(i64),
}

#[derive(Clone, Copy, Debug, PartialEq, Eq)]
enum Cc {
    E,
    Ne,
    L,
    Le,
    G,
    Ge,
}

#[derive(Clone, Debug)]
enum Ins {
    Add(Opd, Opd),
    Sub(Opd, Opd),
    Imul(Opd, Opd),
    Idiv(Opd),
    Cqo,
    JmpR(usize),
    JmpL(String, bool),
    Lea(usize, String),
    Mov(Opd, Opd),
    Cmp(Opd, Opd),
    Test(Opd, Opd),
    /// and / or / xor
    Logic(u8, Opd, Opd),
    Xchg(Opd, Opd),
    /// lea r, [base + off]
    LeaM(usize, usize, i64),
    /// neg / not / inc / dec
    Unary(u8, Opd),
    /// shl / sar / shr by an immediate
    Shift(u8, Opd, u32),
    Cmov(Cc, usize, Opd),
    Jcc(Cc, String),
    Push(usize),
    Pop(usize),
    Call(String),
    Ret,
    Marker(Marker),
}

pub struct Program {
    ins: Vec<Ins>,
    addr: Vec<u64>,
    by_addr: HashMap<u64, usize>,
    labels: HashMap<String, usize>,
    pub text_lines: usize,
}

fn parse_int(s: &str) -> Option<i64> {
    s.trim().parse::<i64>().ok()
}

fn parse_mem(s: &str) -> Option<Opd> {
    // "[reg + imm]" (the printer omits the blank after '+' in one form)
    let inner = s.trim().strip_prefix('[')?.strip_suffix(']')?;
    let (r, off) = match inner.split_once('+') {
        Some((r, o)) => (r.trim(), parse_int(o)?),
        None => match inner.split_once('-') {
            Some((r, o)) => (r.trim(), parse_int(o)?.checked_neg()?),
            None => (inner.trim(), 0),
        },
    };
    Some(Opd::M(reg_index(r)?, off))
}

fn parse_opd(s: &str) -> Option<Opd> {
    let s = s.trim();
    if let Some(r) = reg_index(s) {
        return Some(Opd::R(r));
    }
    if s.starts_with('[') {
        return parse_mem(s);
    }
    parse_int(s).map(Opd::I)
}

fn split2(s: &str) -> Option<(&str, &str)> {
    // split at the top-level comma
    let mut depth = 0;
    for (i, c) in s.char_indices() {
        match c {
            '[' => depth += 1,
            ']' => depth -= 1,
            ',' if depth == 0 => return Some((&s[..i], &s[i + 1..])),
            _ => {}
        }
    }
    None
}

pub fn parse(text: &str) -> Result<Program, Fault> {
    let mut ins = vec![];
    let mut labels = HashMap::new();
    let bad = |l: &str| Fault::Unsupported(format!("x86 line `{l}`"));
    let mut nlines = 0;
    for line in text.lines() {
        let l = line.trim();
        if l.is_empty() {
            continue;
        }
        nlines += 1;
        if let Some(c) = l.strip_prefix(';') {
            if let Some(m) = parse_marker(c) {
                ins.push(Ins::Marker(m));
            }
            continue;
        }
        if l.starts_with("section ") || l.starts_with("extern ") || l.starts_with("global ") {
            continue;
        }
        if let Some(name) = l.strip_suffix(':') {
            if !name.contains(' ') {
                if labels.insert(name.to_string(), ins.len()).is_some() {
                    return Err(Fault::Unsupported(format!("label {name} defined twice")));
                }
                continue;
            }
        }
        let (mn, rest) = match l.split_once(' ') {
            Some((m, r)) => (m, r.trim()),
            None => (l, ""),
        };
        // "add qword [..], imm" etc.
        let (mn, rest) = if let Some(r) = rest.strip_prefix("qword ") { (mn, r.trim()) } else { (mn, rest) };
        let two = |rest: &str| -> Option<(Opd, Opd)> {
            let (a, b) = split2(rest)?;
            Some((parse_opd(a)?, parse_opd(b)?))
        };
        let i = match mn {
            "add" => two(rest).map(|(a, b)| Ins::Add(a, b)),
            "sub" => two(rest).map(|(a, b)| Ins::Sub(a, b)),
            "imul" => two(rest).map(|(a, b)| Ins::Imul(a, b)),
            "mov" => two(rest).map(|(a, b)| Ins::Mov(a, b)),
            "cmp" => two(rest).map(|(a, b)| Ins::Cmp(a, b)),
            "idiv" => parse_opd(rest).map(Ins::Idiv),
            "cqo" => Some(Ins::Cqo),
            "jmp" => {
                if let Some(t) = rest.strip_prefix("near ") {
                    Some(Ins::JmpL(t.trim().to_string(), true))
                } else if let Some(r) = reg_index(rest) {
                    Some(Ins::JmpR(r))
                } else {
                    Some(Ins::JmpL(rest.to_string(), false))
                }
            }
            "lea" => split2(rest).and_then(|(a, b)| {
                let r = reg_index(a.trim())?;
                if let Some(lab) = b.trim().strip_prefix("[rel ").and_then(|x| x.strip_suffix(']')) {
                    return Some(Ins::Lea(r, lab.trim().to_string()));
                }
                match parse_mem(b)? {
                    Opd::M(base, off) => Some(Ins::LeaM(r, base, off)),
                    _ => None,
                }
            }),
            "test" => two(rest).map(|(a, b)| Ins::Test(a, b)),
            "and" => two(rest).map(|(a, b)| Ins::Logic(0, a, b)),
            "or" => two(rest).map(|(a, b)| Ins::Logic(1, a, b)),
            "xor" => two(rest).map(|(a, b)| Ins::Logic(2, a, b)),
            "xchg" => two(rest).map(|(a, b)| Ins::Xchg(a, b)),
            "neg" => parse_opd(rest).map(|o| Ins::Unary(0, o)),
            "not" => parse_opd(rest).map(|o| Ins::Unary(1, o)),
            "inc" => parse_opd(rest).map(|o| Ins::Unary(2, o)),
            "dec" => parse_opd(rest).map(|o| Ins::Unary(3, o)),
            "shl" | "sal" | "sar" | "shr" => two(rest).and_then(|(a, b)| match b {
                Opd::I(n) if (0..64).contains(&n) => Some(Ins::Shift(if mn == "sar" { 1 } else if mn == "shr" { 2 } else { 0 }, a, n as u32)),
                _ => None,
            }),
            "cmove" | "cmovz" | "cmovne" | "cmovnz" | "cmovl" | "cmovle" | "cmovg" | "cmovge" => split2(rest).and_then(|(a, b)| {
                let cc = match mn {
                    "cmove" | "cmovz" => Cc::E,
                    "cmovne" | "cmovnz" => Cc::Ne,
                    "cmovl" => Cc::L,
                    "cmovle" => Cc::Le,
                    "cmovg" => Cc::G,
                    _ => Cc::Ge,
                };
                Some(Ins::Cmov(cc, reg_index(a.trim())?, parse_opd(b)?))
            }),
            "jz" => Some(Ins::Jcc(Cc::E, rest.to_string())),
            "jnz" => Some(Ins::Jcc(Cc::Ne, rest.to_string())),
            "nop" => Some(Ins::Mov(Opd::R(RAX), Opd::R(RAX))),
            "je" => Some(Ins::Jcc(Cc::E, rest.to_string())),
            "jne" => Some(Ins::Jcc(Cc::Ne, rest.to_string())),
            "jl" => Some(Ins::Jcc(Cc::L, rest.to_string())),
            "jle" => Some(Ins::Jcc(Cc::Le, rest.to_string())),
            "jg" => Some(Ins::Jcc(Cc::G, rest.to_string())),
            "jge" => Some(Ins::Jcc(Cc::Ge, rest.to_string())),
            "push" => reg_index(rest).map(Ins::Push),
            "pop" => reg_index(rest).map(Ins::Pop),
            "call" => Some(Ins::Call(rest.to_string())),
            "ret" => Some(Ins::Ret),
            _ => None,
        };
        match i {
            Some(i) => ins.push(i),
            None => return Err(bad(l)),
        }
    }
    // addresses: `jmp near` is 5 bytes, everything else gets a size that is no multiple of 5
    let mut addr = Vec::with_capacity(ins.len() + 1);
    let mut by_addr = HashMap::new();
    let mut a = CODE_BASE;
    for (i, x) in ins.iter().enumerate() {
        addr.push(a);
        by_addr.entry(a).or_insert(i);
        match x {
            Ins::Marker(_) => {}
            Ins::JmpL(_, true) => a += 5,
            _ => a += 3,
        }
    }
    addr.push(a);
    // a jump to the address of a label continues at the label, not at a marker that stands
    // directly in front of it (a statement that emits no instruction, e.g. a match on a type
    // without constructors, leaves its marker there)
    for &i in labels.values() {
        if i < addr.len() {
            by_addr.insert(addr[i], i);
        }
    }
    Ok(Program { ins, addr, by_addr, labels, text_lines: nlines })
}

#[derive(Clone, Copy)]
struct Flags {
    zf: bool,
    sf: bool,
    of: bool,
}

pub struct Emu<'p> {
    prog: &'p Program,
    pub regs: [Word; 16],
    flags: Option<Flags>,
    pub mem: Mem,
    pub events: Vec<PrintEvent>,
    entry_sp: u64,
    sentinels: [u64; 16],
    /// (register name or spill offset) of the first temporary for each environment position
    fst_map: Vec<FstLoc>,
}

#[derive(Clone, Copy, Debug)]
pub enum FstLoc {
    Reg(usize),
    /// byte offset from the stack pointer at statement boundaries
    Spill(i64),
}

static FST: std::sync::OnceLock<Vec<FstLoc>> = std::sync::OnceLock::new();

/// first-temporary locations for environment positions 0..n, asked from the backend itself
pub fn fst_locations(n: usize) -> Vec<FstLoc> {
    FST.get_or_init(|| fst_locations_uncached(n)).clone()
}

fn fst_locations_uncached(n: usize) -> Vec<FstLoc> {
    use axcut2backend::config::TemporaryNumber;
    use axcut2backend::utils::Utils;
    use printer::Print;
    let mut out = vec![];
    let mut ctx = axcut::syntax::TypingContext { bindings: vec![] };
    for i in 0..n {
        let r = crate::pipeline::guarded(|| {
            <axcut2x86_64::Backend as Utils<axcut2x86_64::config::Temporary>>::fresh_temporary(TemporaryNumber::Fst, &ctx)
        });
        match r {
            Ok(axcut2x86_64::config::Temporary::Register(r)) => {
                let name = r.print_to_string(None);
                out.push(FstLoc::Reg(reg_index(&name).unwrap_or(RAX)));
            }
            Ok(axcut2x86_64::config::Temporary::Spill(s)) => {
                out.push(FstLoc::Spill(axcut2x86_64::config::stack_offset(s).val));
            }
            Err(_) => break,
        }
        ctx.bindings.push(axcut::syntax::ContextBinding {
            var: axcut::syntax::Identifier { name: "v".into(), id: i + 1 },
            chi: axcut::syntax::Chirality::Ext,
            ty: axcut::syntax::Ty::I64,
        });
    }
    out
}

impl View for Emu<'_> {
    fn var_fst(&self, position: usize) -> Result<Word, Fault> {
        match self.fst_map.get(position) {
            Some(FstLoc::Reg(r)) => Ok(self.regs[*r]),
            Some(FstLoc::Spill(off)) => {
                let sp = self.regs[RSP].def().ok_or_else(|| Fault::UndefUse("rsp".into()))?;
                self.mem.load(sp.wrapping_add(*off as u64), sp, "audit")
            }
            None => Err(Fault::Unsupported("environment beyond the backend's capacity".into())),
        }
    }
    fn heap_reg(&self) -> Word {
        self.regs[RBX]
    }
    fn free_reg(&self) -> Word {
        self.regs[RBP]
    }
    fn mem(&self) -> &Mem {
        &self.mem
    }
}

impl<'p> Emu<'p> {
    pub fn new(prog: &'p Program, args: &[i64], heap_words: usize) -> Self {
        let mut regs = [Word::Undef; 16];
        let mut mem = Mem::new(heap_words, 1 << 14);
        // entry: rsp = 8 mod 16, return address on top
        let entry_sp = STACK_TOP - 64 - 8;
        mem.frame_top = entry_sp + 8;
        regs[RSP] = Word::Def(entry_sp);
        let mut sentinels = [0u64; 16];
        for r in CALLEE_SAVED {
            sentinels[r] = 0x5e00_0000_0000_0000 | ((r as u64) << 8) | 0x77;
            regs[r] = Word::Def(sentinels[r]);
        }
        regs[ARG_REGS[0]] = Word::Def(HEAP_BASE);
        for (i, a) in args.iter().enumerate().take(5) {
            regs[ARG_REGS[i + 1]] = Word::Def(*a as u64);
        }
        let mut e = Emu { prog, regs, flags: None, mem, events: vec![], entry_sp, sentinels, fst_map: fst_locations(140) };
        // the return address
        let _ = e.mem.store(entry_sp, Word::Def(RET_SENTINEL), entry_sp, "entry");
        e
    }

    fn sp(&self) -> Result<u64, Fault> {
        self.regs[RSP].def().ok_or_else(|| Fault::UndefUse("stack pointer".into()))
    }

    fn addr_of(&self, base: usize, off: i64, what: &str) -> Result<u64, Fault> {
        match self.regs[base] {
            Word::Def(b) => Ok(b.wrapping_add(off as u64)),
            Word::Undef => Err(Fault::UndefUse(format!("{what}: address register {} is undefined", REGS[base]))),
        }
    }

    fn read(&self, o: Opd, what: &str) -> Result<Word, Fault> {
        match o {
            Opd::R(r) => Ok(self.regs[r]),
            Opd::I(i) => Ok(Word::Def(i as u64)),
            Opd::M(b, off) => {
                let a = self.addr_of(b, off, what)?;
                self.mem.load(a, self.sp()?, what)
            }
        }
    }

    fn write(&mut self, o: Opd, w: Word, what: &str) -> Result<(), Fault> {
        match o {
            Opd::R(r) => {
                self.regs[r] = w;
                Ok(())
            }
            Opd::M(b, off) => {
                let a = self.addr_of(b, off, what)?;
                let sp = self.sp()?;
                self.mem.store(a, w, sp, what)
            }
            Opd::I(_) => Err(Fault::Unsupported(format!("{what}: immediate destination"))),
        }
    }

    fn need(&self, w: Word, what: &str) -> Result<u64, Fault> {
        w.def().ok_or_else(|| Fault::UndefUse(what.to_string()))
    }

    fn target(&self, label: &str) -> Result<usize, Fault> {
        self.prog
            .labels
            .get(label)
            .copied()
            .ok_or_else(|| Fault::BadJump(format!("undefined label {label}")))
    }

    pub fn run(&mut self, max_steps: u64, mut audit: Option<Auditor>) -> EmuResult {
        let mut steps = 0u64;
        let mut markers_seen = 0u64;
        let mut max_depth = 0u64;
        let outcome = (|| -> Result<u64, Fault> {
            let mut pc = self.target("asm_main")?;
            loop {
                if pc >= self.prog.ins.len() {
                    return Err(Fault::BadJump("fell off the end of the code".into()));
                }
                steps += 1;
                if steps > max_steps {
                    return Err(Fault::StepBudget);
                }
                let ins = &self.prog.ins[pc];
                let mut next = pc + 1;
                match ins {
                    Ins::Marker(m) => {
                        markers_seen += 1;
                        if std::env::var("SCCV_TRACE").is_ok() {
                            eprintln!("marker pc={pc} [{}]", m.text);
                        }
                        if let Some(a) = audit.as_mut() {
                            a(&*self, m).map_err(Fault::HeapAudit)?;
                        }
                    }
                    Ins::Mov(d, s) => {
                        let w = self.read(*s, "mov")?;
                        self.write(*d, w, "mov")?;
                    }
                    Ins::Sub(Opd::R(x), Opd::R(y)) if x == y => {
                        self.regs[*x] = Word::Def(0);
                        self.flags = Some(Flags { zf: true, sf: false, of: false });
                    }
                    Ins::Add(d, s) | Ins::Sub(d, s) | Ins::Imul(d, s) => {
                        let a = self.need(self.read(*d, "arith")?, "arithmetic on an undefined value")? as i64;
                        let b = self.need(self.read(*s, "arith")?, "arithmetic on an undefined value")? as i64;
                        let (r, fl) = match ins {
                            Ins::Add(..) => {
                                let (r, of) = a.overflowing_add(b);
                                (r, Some(Flags { zf: r == 0, sf: r < 0, of }))
                            }
                            Ins::Sub(..) => {
                                let (r, of) = a.overflowing_sub(b);
                                (r, Some(Flags { zf: r == 0, sf: r < 0, of }))
                            }
                            _ => (a.wrapping_mul(b), None),
                        };
                        self.flags = fl;
                        self.write(*d, Word::Def(r as u64), "arith")?;
                    }
                    Ins::Cmp(a, b) => {
                        let x = self.need(self.read(*a, "cmp")?, "comparison of an undefined value")? as i64;
                        let y = self.need(self.read(*b, "cmp")?, "comparison of an undefined value")? as i64;
                        let (r, of) = x.overflowing_sub(y);
                        self.flags = Some(Flags { zf: r == 0, sf: r < 0, of });
                    }
                    Ins::Test(a, b) => {
                        let x = self.need(self.read(*a, "test")?, "test of an undefined value")?;
                        let y = self.need(self.read(*b, "test")?, "test of an undefined value")?;
                        let r = (x & y) as i64;
                        self.flags = Some(Flags { zf: r == 0, sf: r < 0, of: false });
                    }
                    Ins::Logic(k, d, s) => {
                        // `xor r, r` (and `sub r, r`) define the register whatever it held
                        let same = matches!((d, s), (Opd::R(x), Opd::R(y)) if x == y);
                        let r = if same && *k == 2 {
                            0
                        } else {
                            let a = self.need(self.read(*d, "logic")?, "logic operation on an undefined value")?;
                            let b = self.need(self.read(*s, "logic")?, "logic operation on an undefined value")?;
                            match k {
                                0 => a & b,
                                1 => a | b,
                                _ => a ^ b,
                            }
                        };
                        self.flags = Some(Flags { zf: r == 0, sf: (r as i64) < 0, of: false });
                        self.write(*d, Word::Def(r), "logic")?;
                    }
                    Ins::Xchg(a, b) => {
                        let x = self.read(*a, "xchg")?;
                        let y = self.read(*b, "xchg")?;
                        self.write(*a, y, "xchg")?;
                        self.write(*b, x, "xchg")?;
                    }
                    Ins::LeaM(r, base, off) => {
                        let a = self.addr_of(*base, *off, "lea")?;
                        self.regs[*r] = Word::Def(a);
                    }
                    Ins::Unary(k, o) => {
                        let a = self.need(self.read(*o, "unary")?, "arithmetic on an undefined value")? as i64;
                        let r = match k {
                            0 => {
                                let (r, of) = 0i64.overflowing_sub(a);
                                self.flags = Some(Flags { zf: r == 0, sf: r < 0, of });
                                r
                            }
                            1 => !a,
                            2 => {
                                let (r, of) = a.overflowing_add(1);
                                self.flags = Some(Flags { zf: r == 0, sf: r < 0, of });
                                r
                            }
                            _ => {
                                let (r, of) = a.overflowing_sub(1);
                                self.flags = Some(Flags { zf: r == 0, sf: r < 0, of });
                                r
                            }
                        };
                        self.write(*o, Word::Def(r as u64), "unary")?;
                    }
                    Ins::Shift(k, o, n) => {
                        let a = self.need(self.read(*o, "shift")?, "shift of an undefined value")?;
                        let r = match k {
                            0 => a.wrapping_shl(*n),
                            1 => ((a as i64) >> n) as u64,
                            _ => a >> n,
                        };
                        // the overflow flag of a shift is not modelled: flags undefined afterwards
                        self.flags = None;
                        self.write(*o, Word::Def(r), "shift")?;
                    }
                    Ins::Cmov(cc, r, s) => {
                        let f = self.flags.ok_or_else(|| Fault::UndefUse("conditional move on undefined flags".into()))?;
                        let take = match cc {
                            Cc::E => f.zf,
                            Cc::Ne => !f.zf,
                            Cc::L => f.sf != f.of,
                            Cc::Le => f.zf || f.sf != f.of,
                            Cc::G => !f.zf && f.sf == f.of,
                            Cc::Ge => f.sf == f.of,
                        };
                        let w = self.read(*s, "cmov")?;
                        if take {
                            self.regs[*r] = w;
                        }
                    }
                    Ins::Cqo => {
                        let a = self.need(self.regs[RAX], "cqo on undefined rax")? as i64;
                        self.regs[RDX] = Word::Def(if a < 0 { u64::MAX } else { 0 });
                    }
                    Ins::Idiv(s) => {
                        let lo = self.need(self.regs[RAX], "idiv: rax undefined")?;
                        let hi = self.need(self.regs[RDX], "idiv: rdx undefined")?;
                        let d = self.need(self.read(*s, "idiv")?, "idiv: divisor undefined")? as i64;
                        if d == 0 {
                            return Err(Fault::DivideError);
                        }
                        let n = (((hi as u128) << 64) | lo as u128) as i128;
                        let q = n / d as i128;
                        let r = n % d as i128;
                        if q > i64::MAX as i128 || q < i64::MIN as i128 {
                            return Err(Fault::DivideError);
                        }
                        self.regs[RAX] = Word::Def(q as i64 as u64);
                        self.regs[RDX] = Word::Def(r as i64 as u64);
                        self.flags = None;
                    }
                    Ins::Lea(r, l) => {
                        let t = self.target(l)?;
                        self.regs[*r] = Word::Def(self.prog.addr[t]);
                    }
                    Ins::JmpL(l, _) => next = self.target(l)?,
                    Ins::JmpR(r) => {
                        let a = self.need(self.regs[*r], "indirect jump through an undefined register")?;
                        next = *self
                            .prog
                            .by_addr
                            .get(&a)
                            .ok_or_else(|| Fault::BadJump(format!("indirect jump to {a:#x}")))?;
                    }
                    Ins::Jcc(cc, l) => {
                        let f = self.flags.ok_or_else(|| Fault::UndefUse("conditional jump on undefined flags".into()))?;
                        let take = match cc {
                            Cc::E => f.zf,
                            Cc::Ne => !f.zf,
                            Cc::L => f.sf != f.of,
                            Cc::Le => f.zf || f.sf != f.of,
                            Cc::G => !f.zf && f.sf == f.of,
                            Cc::Ge => f.sf == f.of,
                        };
                        if take {
                            next = self.target(l)?;
                        }
                    }
                    Ins::Push(r) => {
                        let sp = self.sp()?.wrapping_sub(8);
                        self.regs[RSP] = Word::Def(sp);
                        let w = self.regs[*r];
                        self.mem.store(sp, w, sp, "push")?;
                    }
                    Ins::Pop(r) => {
                        let sp = self.sp()?;
                        let w = self.mem.load(sp, sp, "pop")?;
                        self.regs[*r] = w;
                        self.regs[RSP] = Word::Def(sp.wrapping_add(8));
                    }
                    Ins::Call(f) => {
                        let newline = match f.as_str() {
                            "print_i64" => false,
                            "println_i64" => true,
                            _ => return Err(Fault::Unsupported(format!("call {f}"))),
                        };
                        let sp = self.sp()?;
                        if sp % 16 != 0 {
                            return Err(Fault::CallingConvention(format!(
                                "stack pointer {sp:#x} is not 16-byte aligned at call {f}"
                            )));
                        }
                        let v = self.need(self.regs[RDI], "argument of the print call is undefined")?;
                        self.events.push(PrintEvent { newline, value: v as i64 });
                        for r in CALLER_SAVED {
                            self.regs[r] = Word::Undef;
                        }
                        self.flags = None;
                        self.mem.poison_below(sp);
                    }
                    Ins::Ret => {
                        let sp = self.sp()?;
                        let ra = self.need(self.mem.load(sp, sp, "ret")?, "return address undefined")?;
                        if ra != RET_SENTINEL || sp != self.entry_sp {
                            return Err(Fault::CallingConvention(format!(
                                "ret with stack pointer {sp:#x} (entry {:#x}), return address {ra:#x}",
                                self.entry_sp
                            )));
                        }
                        for r in CALLEE_SAVED {
                            if self.regs[r] != Word::Def(self.sentinels[r]) {
                                return Err(Fault::CallingConvention(format!(
                                    "callee-saved register {} not restored",
                                    REGS[r]
                                )));
                            }
                        }
                        let v = self.need(self.regs[RAX], "return value undefined")?;
                        return Ok(v);
                    }
                }
                if let Word::Def(sp) = self.regs[RSP] {
                    max_depth = max_depth.max(self.entry_sp.saturating_sub(sp));
                }
                pc = next;
            }
        })();
        EmuResult {
            events: std::mem::take(&mut self.events),
            outcome,
            steps,
            heap_high_water: self.mem.heap_high_water,
            markers_seen,
            max_sp_depth: max_depth,
        }
    }
}

pub fn run_text(text: &str, args: &[i64], max_steps: u64, heap_words: usize, audit: Option<Auditor>) -> EmuResult {
    match parse(text) {
        Ok(p) => {
            let mut e = Emu::new(&p, args, heap_words);
            e.run(max_steps, audit)
        }
        Err(f) => EmuResult { events: vec![], outcome: Err(f), steps: 0, heap_high_water: 0, markers_seen: 0, max_sp_depth: 0 },
    }
}

//! Scalable program families (Fun source text), used by C19 (output size as a function of the
//! depth k) and C10 (space as a function of the iteration count n).

use crate::choice::Chooser;

const PRELUDE: &str = "data T { A, B, C, D }\ndata List[X] { Nil, Cons(x: X, xs: List[X]) }\ncodata Fun[X, Y] { apply(x: X): Y }\ncodata Stream[X] { head: X, tail: Stream[X] }\n";

pub const KINDS: usize = 10;
pub const FOLLOWS: usize = 9;

/// one branching construct binding `{out}{i}`; `c` constructors (2..4) where relevant
fn branch(kind: usize, i: usize, c: usize, out: &str) -> String {
    let ctors = ["A", "B", "C", "D"];
    let prev = if i == 0 { "a".to_string() } else { format!("x{}", i - 1) };
    match kind {
        // sequenced conditional
        0 => format!("let {out}{i}: i64 = if {prev} == {i} {{ {prev} + 1 }} else {{ {prev} - 1 }};\n  "),
        // sequenced match over c constructors
        1 => {
            let clauses: Vec<String> = (0..c).map(|j| format!("{} => {prev} + {j}", ctors[j])).collect();
            let rest: Vec<String> = (c..4).map(|j| format!("{} => 0", ctors[j])).collect();
            format!("let {out}{i}: i64 = t.case {{ {}, {} }};\n  ", clauses.join(", "), rest.join(", ")).replace(",  }", " }")
        }
        // data-typed match (critical pairs at a multi-constructor type) followed by a use
        2 => format!(
            "let u{i}: T = t.case {{ A => B, B => C, C => D, D => A }};\n  let {out}{i}: i64 = u{i}.case {{ A => {prev}, B => {prev} + 1, C => 2, D => 3 }};\n  "
        ),
        // conditional with a codata-typed result that is used afterwards
        3 => format!(
            "let s{i}: Fun[i64, i64] = if {prev} < {i} {{ new {{ apply(v) => v + {prev} }} }} else {{ new {{ apply(v) => v - 1 }} }};\n  let {out}{i}: i64 = s{i}.apply[i64, i64]({prev});\n  "
        ),
        // nested conditional in operand position
        4 => format!("let {out}{i}: i64 = (if {prev} <= {i} {{ 1 }} else {{ 2 }}) + (if {prev} > 3 {{ {prev} }} else {{ 4 }});\n  "),
        // destructor invoked directly on a codata-typed conditional
        6 => format!(
            "let {out}{i}: i64 = (if {prev} < {i} {{ new {{ apply(v) => v + 1 }} }} else {{ new {{ apply(v) => v - 1 }} }}).apply[i64, i64]({prev});\n  "
        ),
        // destructor invoked directly on a codata-typed match
        7 => format!(
            "let {out}{i}: i64 = (t.case {{ A => new {{ apply(v) => v + 1 }}, B => fu, C => new {{ apply(v) => v }}, D => fu }}).apply[i64, i64]({prev});\n  "
        ),
        // conditional in a constructor argument, the constructor matched afterwards
        8 => format!(
            "let {out}{i}: i64 = (Cons(if {prev} == {i} {{ 1 }} else {{ {prev} }}, Nil)).case[i64] {{ Nil => 0, Cons(hd, tl) => hd }};\n  "
        ),
        // conditional in the argument of a destructor invocation
        9 => format!("let {out}{i}: i64 = fu.apply[i64, i64](if {prev} == {i} {{ 1 }} else {{ {prev} }});\n  "),
        // print in between (statement-like) plus conditional
        _ => format!("let {out}{i}: i64 = if 0 < {prev} {{ {prev} * 2 }} else {{ 0 - {prev} }};\n  "),
    }
}

/// what directly follows a branch point (the first statement of the continuation that has to be
/// shared): binds `x{i}` from `b{i}`
fn follow(kind: usize, i: usize) -> String {
    match kind {
        // a call of a top-level definition
        1 => format!("let x{i}: i64 = g(b{i});\n  "),
        // a call with several arguments
        2 => format!("let x{i}: i64 = h(b{i}, a, t);\n  "),
        // a print
        3 => format!("print_i64(b{i});\n  let x{i}: i64 = b{i} + 1;\n  "),
        // a constructor, then a match on it
        4 => format!("let l{i}: List[i64] = Cons(b{i}, Nil);\n  let x{i}: i64 = l{i}.case[i64] {{ Nil => 0, Cons(hd, tl) => hd }};\n  "),
        // a destructor invocation on a parameter
        5 => format!("let x{i}: i64 = fu.apply[i64, i64](b{i});\n  "),
        // a label with a jump
        6 => format!("let x{i}: i64 = label k{i} {{ if b{i} == 0 {{ goto k{i} (1) }} else {{ b{i} }} }};\n  "),
        // an arithmetic operation
        7 => format!("let x{i}: i64 = b{i} * 3;\n  "),
        // a closure creation, then its invocation
        8 => format!("let c{i}: Fun[i64, i64] = new {{ apply(v) => v + b{i} }};\n  let x{i}: i64 = c{i}.apply[i64, i64](a);\n  "),
        _ => unreachable!(),
    }
}

/// a program with k sequenced branch points of the given kind(s), each directly followed by the
/// given kind of statement (0 = nothing in between)
pub fn size_family_with(kinds: &[usize], follows: &[usize], k: usize, ctors: usize, trailing: usize) -> String {
    let mut body = String::new();
    for i in 0..k {
        let fo = follows[i % follows.len()];
        body.push_str(&branch(kinds[i % kinds.len()], i, ctors, if fo == 0 { "x" } else { "b" }));
        if fo != 0 {
            body.push_str(&follow(fo, i));
        }
    }
    // trailing code of adjustable size using the last variable
    let last = if k == 0 { "a".to_string() } else { format!("x{}", k - 1) };
    let mut tail = last.clone();
    for j in 0..trailing {
        tail = format!("({tail} + {j})");
    }
    format!(
        "{PRELUDE}def g(v: i64): i64 {{ v + 1 }}\ndef h(v: i64, w: i64, t: T): i64 {{ t.case {{ A => v, B => w, C => 0, D => 1 }} }}\ndef f(a: i64, t: T, fu: Fun[i64, i64]): i64 {{\n  {body}{tail}\n}}\ndef main(a: i64): i64 {{ f(a, B, new {{ apply(v) => v + 1 }}) }}\n"
    )
}

pub fn size_family(kinds: &[usize], k: usize, ctors: usize, trailing: usize) -> String {
    size_family_with(kinds, &[0], k, ctors, trailing)
}

/// k nested branch points (each branch point inside one branch of the previous one, followed by
/// further code)
pub fn nested_family(kind: usize, k: usize) -> String {
    fn go(kind: usize, i: usize, k: usize) -> String {
        if i == k {
            return "a".to_string();
        }
        let inner = go(kind, i + 1, k);
        match kind {
            0 => format!("(let y{i}: i64 = if a == {i} {{ {inner} }} else {{ {i} }}; y{i} + 1)"),
            _ => format!("(let y{i}: i64 = t.case {{ A => {inner}, B => {i}, C => 1, D => 2 }}; y{i} + 1)"),
        }
    }
    format!("{PRELUDE}def f(a: i64, t: T): i64 {{\n  {}\n}}\ndef main(a: i64): i64 {{ f(a, B) }}\n", go(kind, 0, k))
}

/// k nested branch points whose *result* has the given type (0 i64, 1 four-constructor data type,
/// 2 list, 3 codata with one destructor, 4 codata with two destructors), sitting either in a
/// let binding (pos 0) or directly in the argument of a call (pos 1), branching by a conditional
/// (br 0) or a four-way match (br 1)
pub fn nested_family2(ty: usize, pos: usize, br: usize, k: usize) -> String {
    let (tyname, base, wrap) = match ty {
        0 => ("i64", "a", "wi"),
        1 => ("T", "B", "wt"),
        2 => ("List[i64]", "Nil", "wl"),
        3 => ("Fun[i64, i64]", "new { apply(v) => v }", "wf"),
        _ => ("Stream[i64]", "ones()", "ws"),
    };
    fn go(i: usize, k: usize, tyname: &str, base: &str, wrap: &str, pos: usize, br: usize) -> String {
        if i == k {
            return base.to_string();
        }
        let inner = go(i + 1, k, tyname, base, wrap, pos, br);
        let branch = if br == 0 {
            format!("if a == {i} {{ {inner} }} else {{ {base} }}")
        } else {
            format!("t.case {{ A => {inner}, B => {base}, C => {base}, D => {base} }}")
        };
        if pos == 0 { format!("(let y{i}: {tyname} = {branch}; {wrap}(y{i}))") } else { format!("{wrap}({branch})") }
    }
    let e = go(0, k, tyname, base, wrap, pos, br);
    let observe = match ty {
        0 => e,
        1 => format!("({e}).case {{ A => 0, B => 1, C => 2, D => 3 }}"),
        2 => format!("({e}).case[i64] {{ Nil => 0, Cons(h, tl) => h }}"),
        3 => format!("({e}).apply[i64, i64](a)"),
        _ => format!("({e}).head[i64]"),
    };
    format!(
        "{PRELUDE}def wi(x: i64): i64 {{ x + 1 }}\ndef wt(x: T): T {{ x.case {{ A => B, B => C, C => D, D => A }} }}\ndef wl(x: List[i64]): List[i64] {{ Cons(1, x) }}\ndef wf(x: Fun[i64, i64]): Fun[i64, i64] {{ new {{ apply(v) => (x.apply[i64, i64](v)) + 1 }} }}\ndef ones(): Stream[i64] {{ new {{ head => 1, tail => ones() }} }}\ndef ws(x: Stream[i64]): Stream[i64] {{ x.tail[i64] }}\ndef f(a: i64, t: T): i64 {{\n  {observe}\n}}\ndef main(a: i64): i64 {{ f(a, B) }}\n"
    )
}

/// k branch points nested in *scrutinee* position: `(((t.case {..}).case {..}) ...).case {..}`
/// (kind 0: matches all the way down; kind 1: a conditional at the bottom; kind 2: destructor
/// scrutinee chains over a two-destructor codata type with a conditional at the bottom)
pub fn scrutinee_family(kind: usize, k: usize) -> String {
    let rot = "case { A => B, B => C, C => D, D => A }";
    let mut e = match kind {
        1 => "(if a == 0 { A } else { t })".to_string(),
        _ => "t".to_string(),
    };
    let body = if kind == 2 {
        let mut s = "(if a == 0 { ones() } else { ones().tail[i64] })".to_string();
        for _ in 0..k {
            s = format!("({s}).tail[i64]");
        }
        format!("({s}).head[i64]")
    } else {
        for i in 0..k {
            // clause bodies are not statically known constructors
            e = format!("({e}).case {{ A => wt(B), B => if a == {i} {{ C }} else {{ D }}, C => D, D => A }}");
        }
        let _ = rot;
        format!("({e}).case {{ A => 0, B => 1, C => 2, D => 3 }}")
    };
    format!(
        "{PRELUDE}def wt(x: T): T {{ x.case {{ A => B, B => C, C => D, D => A }} }}\ndef ones(): Stream[i64] {{ new {{ head => 1, tail => ones() }} }}\ndef f(a: i64, t: T): i64 {{\n  {body}\n}}\ndef main(a: i64): i64 {{ f(a, B) }}\n"
    )
}


pub const OPERAND_VARIANTS: usize = 6;

/// k branch points lifted out of ONE statement: conditionals (or matches) sitting in operand /
/// argument positions of a single nested expression.  variant 0: operands of `+`, comparisons
/// between variables, branches bare variables; 1: the same with comparisons against zero; 2:
/// comparisons against literals, literal branches; 3: arguments of nested two-argument calls;
/// 4: constructor arguments of one nested list; 5: four-way matches as operands
pub fn operand_family(variant: usize, k: usize) -> String {
    let cond = |i: usize| -> String {
        let (l, r) = if i % 2 == 0 { ("x", "y") } else { ("y", "x") };
        match variant {
            0 | 3 | 4 => format!("(if {} == {} {{ {l} }} else {{ {r} }})", if i % 3 == 0 { "c" } else { l }, if i % 3 == 1 { "c" } else { r }),
            1 => format!("(if {l} == 0 {{ {l} }} else {{ {r} }})"),
            2 => format!("(if {l} == {i} {{ {i} }} else {{ 7 }})"),
            _ => format!("(t.case {{ A => {l}, B => {r}, C => c, D => {i} }})"),
        }
    };
    let mut e = "1".to_string();
    for i in 0..k {
        e = match variant {
            3 => format!("g2({}, {e})", cond(i)),
            4 => format!("Cons({}, {e})", cond(i)),
            _ => format!("{} + ({e})", cond(i)),
        };
    }
    let body = if variant == 4 {
        let mut l = "Nil".to_string();
        for i in 0..k {
            l = format!("Cons({}, {l})", cond(i));
        }
        format!("sum({l})")
    } else {
        e
    };
    format!(
        "{PRELUDE}def g2(v: i64, w: i64): i64 {{ v + w }}\ndef sum(l: List[i64]): i64 {{ l.case[i64] {{ Nil => 0, Cons(h, tl) => h + sum(tl) }} }}\ndef f(c: i64, x: i64, y: i64, t: T): i64 {{\n  {body}\n}}\ndef main(a: i64): i64 {{ f(a, 3, 4, B) }}\n"
    )
}

pub fn random_size_family(c: &mut Chooser) -> (Vec<usize>, Vec<usize>, usize, usize) {
    let n = 1 + c.choose(3);
    let kinds: Vec<usize> = (0..n).map(|_| c.choose(KINDS)).collect();
    let m = 1 + c.choose(3);
    let follows: Vec<usize> = (0..m).map(|_| c.choose(FOLLOWS)).collect();
    (kinds, follows, 2 + c.choose(3), c.choose(6))
}

// ------------------------------------------------------------------------------------------
// space families: main(n) runs n iterations, each building and dropping a structure of size m
// ------------------------------------------------------------------------------------------

pub fn space_family(kind: usize, m: usize) -> String {
    let defs = match kind {
        // list: build, sum (consumes)
        0 => format!(
            "def build(m: i64): List[i64] {{ if m <= 0 {{ Nil }} else {{ Cons(m, build(m - 1)) }} }}\ndef sum(l: List[i64]): i64 {{ l.case[i64] {{ Nil => 0, Cons(x, xs) => x + sum(xs) }} }}\ndef work(i: i64): i64 {{ sum(build({m})) + i }}\n"
        ),
        // shared list: used twice (reference count > 0, non-destructive traversal), then dropped
        1 => format!(
            "def build(m: i64): List[i64] {{ if m <= 0 {{ Nil }} else {{ Cons(m, build(m - 1)) }} }}\ndef sum(l: List[i64]): i64 {{ l.case[i64] {{ Nil => 0, Cons(x, xs) => x + sum(xs) }} }}\ndef work(i: i64): i64 {{ let l: List[i64] = build({m}); (sum(l) + sum(l)) + i }}\n"
        ),
        // closures: a chain of m closures, each capturing the previous one
        2 => format!(
            "def chain(m: i64, f: Fun[i64, i64]): Fun[i64, i64] {{ if m <= 0 {{ f }} else {{ chain(m - 1, new {{ apply(v) => (f.apply[i64, i64](v)) + 1 }}) }} }}\ndef work(i: i64): i64 {{ chain({m}, new {{ apply(v) => v }}).apply[i64, i64](i) }}\n"
        ),
        // tree-like: list of lists, dropped without being traversed completely
        3 => format!(
            "def build(m: i64): List[i64] {{ if m <= 0 {{ Nil }} else {{ Cons(m, build(m - 1)) }} }}\ndef outer(m: i64): List[List[i64]] {{ if m <= 0 {{ Nil }} else {{ Cons(build(3), outer(m - 1)) }} }}\ndef first(l: List[List[i64]]): i64 {{ l.case[List[i64]] {{ Nil => 0, Cons(x, xs) => x.case[i64] {{ Nil => 1, Cons(y, ys) => y }} }} }}\ndef work(i: i64): i64 {{ first(outer({m})) + i }}\n"
        ),
        // stream consumed lazily for m steps
        _ => format!(
            "def from(k: i64): Stream[i64] {{ new {{ head => k, tail => from(k + 1) }} }}\ndef take(m: i64, s: Stream[i64]): i64 {{ if m <= 0 {{ s.head[i64] }} else {{ take(m - 1, s.tail[i64]) }} }}\ndef work(i: i64): i64 {{ take({m}, from(i)) }}\n"
        ),
    };
    format!(
        "{PRELUDE}{defs}def loop(n: i64, acc: i64): i64 {{ if n <= 0 {{ acc }} else {{ loop(n - 1, (acc + work(n)) % 1000003) }} }}\ndef main(n: i64): i64 {{ loop(n, 0) }}\n"
    )
}

//! The harness's own AST for Fun (independent of `fun::syntax`) and an emitter to source text
//! that inserts exactly the parentheses the grammar needs.

use serde::{Deserialize, Serialize};
use std::fmt::Write;

#[derive(Clone, PartialEq, Eq, Hash, Debug, Serialize, Deserialize)]
pub enum Ty {
    I64,
    Named(String, Vec<Ty>),
}

impl Ty {
    pub fn named(n: &str, args: Vec<Ty>) -> Ty {
        Ty::Named(n.to_string(), args)
    }
    pub fn show(&self) -> String {
        match self {
            Ty::I64 => "i64".to_string(),
            Ty::Named(n, args) => {
                if args.is_empty() {
                    n.clone()
                } else {
                    format!(
                        "{}[{}]",
                        n,
                        args.iter().map(|a| a.show()).collect::<Vec<_>>().join(", ")
                    )
                }
            }
        }
    }
    pub fn subst(&self, params: &[String], args: &[Ty]) -> Ty {
        match self {
            Ty::I64 => Ty::I64,
            Ty::Named(n, a) => {
                if a.is_empty() {
                    if let Some(i) = params.iter().position(|p| p == n) {
                        return args[i].clone();
                    }
                }
                Ty::Named(n.clone(), a.iter().map(|t| t.subst(params, args)).collect())
            }
        }
    }
}

#[derive(Clone, Debug, PartialEq, Eq, Serialize, Deserialize)]
pub struct Param {
    pub name: String,
    pub cns: bool,
    pub ty: Ty,
}

#[derive(Clone, Debug, PartialEq, Eq, Serialize, Deserialize)]
pub struct Xtor {
    pub name: String,
    pub args: Vec<Param>,
    /// destructors only: the type of the result
    pub ret: Option<Ty>,
}

#[derive(Clone, Debug, PartialEq, Eq, Serialize, Deserialize)]
pub struct TypeDecl {
    pub name: String,
    pub params: Vec<String>,
    pub codata: bool,
    pub xtors: Vec<Xtor>,
}

#[derive(Clone, Copy, Debug, PartialEq, Eq, Hash, Serialize, Deserialize)]
pub enum BinOp {
    Add,
    Sub,
    Mul,
    Div,
    Rem,
}

impl BinOp {
    pub fn sym(self) -> &'static str {
        match self {
            BinOp::Add => "+",
            BinOp::Sub => "-",
            BinOp::Mul => "*",
            BinOp::Div => "/",
            BinOp::Rem => "%",
        }
    }
    /// None = undefined (division by zero or overflowing division)
    pub fn eval(self, a: i64, b: i64) -> Option<i64> {
        match self {
            BinOp::Add => Some(a.wrapping_add(b)),
            BinOp::Sub => Some(a.wrapping_sub(b)),
            BinOp::Mul => Some(a.wrapping_mul(b)),
            BinOp::Div => {
                if b == 0 || (a == i64::MIN && b == -1) {
                    None
                } else {
                    Some(a / b)
                }
            }
            BinOp::Rem => {
                if b == 0 || (a == i64::MIN && b == -1) {
                    None
                } else {
                    Some(a % b)
                }
            }
        }
    }
}

#[derive(Clone, Copy, Debug, PartialEq, Eq, Hash, Serialize, Deserialize)]
pub enum Cmp {
    Eq,
    Ne,
    Lt,
    Le,
    Gt,
    Ge,
}

impl Cmp {
    pub const ALL: [Cmp; 6] = [Cmp::Eq, Cmp::Ne, Cmp::Lt, Cmp::Le, Cmp::Gt, Cmp::Ge];
    pub fn sym(self) -> &'static str {
        match self {
            Cmp::Eq => "==",
            Cmp::Ne => "!=",
            Cmp::Lt => "<",
            Cmp::Le => "<=",
            Cmp::Gt => ">",
            Cmp::Ge => ">=",
        }
    }
    /// the operator to print when the zero is written on the left: `0 op' t`  ==  `t op 0`
    pub fn flipped(self) -> &'static str {
        match self {
            Cmp::Eq => "==",
            Cmp::Ne => "!=",
            Cmp::Lt => ">",
            Cmp::Le => ">=",
            Cmp::Gt => "<",
            Cmp::Ge => "<=",
        }
    }
    pub fn eval(self, a: i64, b: i64) -> bool {
        match self {
            Cmp::Eq => a == b,
            Cmp::Ne => a != b,
            Cmp::Lt => a < b,
            Cmp::Le => a <= b,
            Cmp::Gt => a > b,
            Cmp::Ge => a >= b,
        }
    }
}

#[derive(Clone, Debug, PartialEq, Eq, Serialize, Deserialize)]
pub enum Arg {
    /// `lazy` = the parameter has a codata type (the argument is passed by name)
    Tm { t: Tm, lazy: bool },
    Covar(String),
}

#[derive(Clone, Debug, PartialEq, Eq, Serialize, Deserialize)]
pub struct Clause {
    pub xtor: String,
    pub binders: Vec<String>,
    pub body: Tm,
}

#[derive(Clone, Debug, PartialEq, Eq, Serialize, Deserialize)]
pub enum Tm {
    Lit(i64),
    Var(String),
    Op(Box<Tm>, BinOp, Box<Tm>),
    /// `snd == None`: comparison with zero; `zero_left`: written `0 op t` instead of `t op 0`
    If {
        sort: Cmp,
        fst: Box<Tm>,
        snd: Option<Box<Tm>>,
        zero_left: bool,
        thn: Box<Tm>,
        els: Box<Tm>,
    },
    Print {
        newline: bool,
        arg: Box<Tm>,
        next: Box<Tm>,
    },
    Let {
        var: String,
        ty: Ty,
        lazy: bool,
        bound: Box<Tm>,
        body: Box<Tm>,
    },
    Call {
        name: String,
        args: Vec<Arg>,
    },
    Ctor {
        name: String,
        args: Vec<Arg>,
    },
    Dtor {
        scrut: Box<Tm>,
        name: String,
        tyargs: Vec<Ty>,
        args: Vec<Arg>,
    },
    Case {
        scrut: Box<Tm>,
        tyargs: Vec<Ty>,
        clauses: Vec<Clause>,
    },
    New {
        clauses: Vec<Clause>,
    },
    Label {
        name: String,
        body: Box<Tm>,
    },
    Goto {
        name: String,
        arg: Box<Tm>,
    },
    Exit(Box<Tm>),
    Paren(Box<Tm>),
}

#[derive(Clone, Debug, PartialEq, Eq, Serialize, Deserialize)]
pub struct Def {
    pub name: String,
    pub params: Vec<Param>,
    pub ret: Ty,
    pub body: Tm,
}

#[derive(Clone, Debug, PartialEq, Eq, Serialize, Deserialize)]
pub enum Decl {
    Type(usize),
    Def(usize),
}

#[derive(Clone, Debug, PartialEq, Eq, Default, Serialize, Deserialize)]
pub struct Program {
    pub types: Vec<TypeDecl>,
    pub defs: Vec<Def>,
    /// order of declarations in the emitted text (empty = types then defs)
    pub order: Vec<Decl>,
}

impl Program {
    pub fn type_decl(&self, name: &str) -> Option<&TypeDecl> {
        self.types.iter().find(|t| t.name == name)
    }
    pub fn is_codata(&self, ty: &Ty) -> bool {
        match ty {
            Ty::I64 => false,
            Ty::Named(n, _) => self.type_decl(n).map(|d| d.codata).unwrap_or(false),
        }
    }
    pub fn def(&self, name: &str) -> Option<&Def> {
        self.defs.iter().find(|d| d.name == name)
    }
    pub fn find_xtor(&self, name: &str) -> Option<(&TypeDecl, &Xtor)> {
        for t in &self.types {
            for x in &t.xtors {
                if x.name == name {
                    return Some((t, x));
                }
            }
        }
        None
    }
    pub fn node_count(&self) -> usize {
        self.defs.iter().map(|d| d.body.size()).sum()
    }
}

impl Tm {
    pub fn size(&self) -> usize {
        fn args(a: &[Arg]) -> usize {
            a.iter()
                .map(|x| match x {
                    Arg::Tm { t, .. } => t.size(),
                    Arg::Covar(_) => 1,
                })
                .sum()
        }
        1 + match self {
            Tm::Lit(_) | Tm::Var(_) => 0,
            Tm::Op(a, _, b) => a.size() + b.size(),
            Tm::If { fst, snd, thn, els, .. } => {
                fst.size() + snd.as_ref().map(|s| s.size()).unwrap_or(0) + thn.size() + els.size()
            }
            Tm::Print { arg, next, .. } => arg.size() + next.size(),
            Tm::Let { bound, body, .. } => bound.size() + body.size(),
            Tm::Call { args: a, .. } | Tm::Ctor { args: a, .. } => args(a),
            Tm::Dtor { scrut, args: a, .. } => scrut.size() + args(a),
            Tm::Case { scrut, clauses, .. } => {
                scrut.size() + clauses.iter().map(|c| c.body.size()).sum::<usize>()
            }
            Tm::New { clauses } => clauses.iter().map(|c| c.body.size()).sum::<usize>(),
            Tm::Label { body, .. } => body.size(),
            Tm::Goto { arg, .. } => arg.size(),
            Tm::Exit(a) | Tm::Paren(a) => a.size(),
        }
    }
}

// ------------------------------------------------------------------------------------------
// emitter
// ------------------------------------------------------------------------------------------

/// syntactic classes of the grammar: 1 = Term1 (literal, variable, call, parenthesised),
/// 2 = Term2 (+ new, constructor, destructor, case), 3 = Term3 (+ if, label, goto, exit, op, let),
/// 4 = Term (+ print)
fn class(t: &Tm) -> u8 {
    match t {
        Tm::Lit(_) | Tm::Var(_) | Tm::Call { .. } | Tm::Paren(_) => 1,
        Tm::New { .. } | Tm::Ctor { .. } | Tm::Dtor { .. } | Tm::Case { .. } => 2,
        Tm::If { .. }
        | Tm::Label { .. }
        | Tm::Goto { .. }
        | Tm::Exit(_)
        | Tm::Op(..)
        | Tm::Let { .. } => 3,
        Tm::Print { .. } => 4,
    }
}

pub struct Emitter {
    pub out: String,
    indent: usize,
}

fn last_token_is_zero(s: &str) -> bool {
    let b = s.trim_end().as_bytes();
    if b.is_empty() || b[b.len() - 1] != b'0' {
        return false;
    }
    if b.len() == 1 {
        return true;
    }
    let p = b[b.len() - 2];
    !(p.is_ascii_alphanumeric() || p == b'_')
}

fn first_token_is_zero(s: &str) -> bool {
    let b = s.trim_start().as_bytes();
    !b.is_empty() && b[0] == b'0'
}

impl Emitter {
    pub fn new() -> Self {
        Emitter { out: String::new(), indent: 0 }
    }

    fn nl(&mut self) {
        self.out.push('\n');
        for _ in 0..self.indent {
            self.out.push_str("  ");
        }
    }

    pub fn term_to_string(t: &Tm, max_class: u8) -> String {
        let mut e = Emitter::new();
        e.term(t, max_class);
        e.out
    }

    fn args(&mut self, args: &[Arg]) {
        for (i, a) in args.iter().enumerate() {
            if i > 0 {
                self.out.push_str(", ");
            }
            match a {
                Arg::Tm { t, .. } => self.term(t, 4),
                Arg::Covar(c) => self.out.push_str(c),
            }
        }
    }

    fn tyargs(&mut self, tyargs: &[Ty]) {
        if !tyargs.is_empty() {
            self.out.push('[');
            self.out
                .push_str(&tyargs.iter().map(|t| t.show()).collect::<Vec<_>>().join(", "));
            self.out.push(']');
        }
    }

    fn clauses(&mut self, clauses: &[Clause]) {
        self.out.push('{');
        self.indent += 1;
        for (i, c) in clauses.iter().enumerate() {
            if i > 0 {
                self.out.push(',');
            }
            self.nl();
            self.out.push_str(&c.xtor);
            if !c.binders.is_empty() {
                self.out.push('(');
                self.out.push_str(&c.binders.join(", "));
                self.out.push(')');
            }
            self.out.push_str(" => ");
            self.term(&c.body, 4);
        }
        self.indent -= 1;
        if !clauses.is_empty() {
            self.nl();
        } else {
            self.out.push(' ');
        }
        self.out.push('}');
    }

    pub fn term(&mut self, t: &Tm, max_class: u8) {
        if class(t) > max_class {
            self.out.push('(');
            self.term(t, 4);
            self.out.push(')');
            return;
        }
        match t {
            Tm::Lit(n) => {
                if *n == i64::MIN {
                    // the literal cannot be written directly (the magnitude overflows the lexer's
                    // conversion); callers avoid it, but stay total
                    self.out.push_str("(-9223372036854775807 - 1)");
                } else {
                    let _ = write!(self.out, "{n}");
                }
            }
            Tm::Var(v) => self.out.push_str(v),
            Tm::Op(a, op, b) => {
                self.term(a, 1);
                let _ = write!(self.out, " {} ", op.sym());
                self.term(b, 1);
            }
            Tm::If { sort, fst, snd, zero_left, thn, els } => {
                self.out.push_str("if ");
                match snd {
                    None => {
                        if *zero_left {
                            let _ = write!(self.out, "0 {} ", sort.flipped());
                            // (known finding D9) the formatter prints this form as `t op 0`, so an
                            // operand ending in the token 0 would be merged with the operator
                            let s = Emitter::term_to_string(fst, 4);
                            if last_token_is_zero(&s) || first_token_is_zero(&s) {
                                let _ = write!(self.out, "({s})");
                            } else {
                                self.out.push_str(&s);
                            }
                        } else {
                            // the operand must not end in a literal 0 token only when a
                            // *different* combined token would be formed; `t == 0` is what we
                            // want here, but `0 == 0` would lex as `0 ==` `0`
                            let s = Emitter::term_to_string(fst, 4);
                            if last_token_is_zero(&s) {
                                let _ = write!(self.out, "({s})");
                            } else {
                                self.out.push_str(&s);
                            }
                            let _ = write!(self.out, " {} 0", sort.sym());
                        }
                    }
                    Some(snd) => {
                        let s1 = Emitter::term_to_string(fst, 4);
                        if last_token_is_zero(&s1) {
                            let _ = write!(self.out, "({s1})");
                        } else {
                            self.out.push_str(&s1);
                        }
                        let _ = write!(self.out, " {} ", sort.sym());
                        let s2 = Emitter::term_to_string(snd, 4);
                        if first_token_is_zero(&s2) {
                            let _ = write!(self.out, "({s2})");
                        } else {
                            self.out.push_str(&s2);
                        }
                    }
                }
                self.out.push_str(" {");
                self.indent += 1;
                self.nl();
                self.term(thn, 4);
                self.indent -= 1;
                self.nl();
                self.out.push_str("} else {");
                self.indent += 1;
                self.nl();
                self.term(els, 4);
                self.indent -= 1;
                self.nl();
                self.out.push('}');
            }
            Tm::Print { newline, arg, next } => {
                self.out
                    .push_str(if *newline { "println_i64(" } else { "print_i64(" });
                self.term(arg, 4);
                self.out.push_str(");");
                self.nl();
                self.term(next, 4);
            }
            Tm::Let { var, ty, bound, body, .. } => {
                let _ = write!(self.out, "let {}: {} = ", var, ty.show());
                self.term(bound, 3);
                self.out.push(';');
                self.nl();
                self.term(body, 4);
            }
            Tm::Call { name, args } => {
                self.out.push_str(name);
                self.out.push('(');
                self.args(args);
                self.out.push(')');
            }
            Tm::Ctor { name, args } => {
                self.out.push_str(name);
                if !args.is_empty() {
                    self.out.push('(');
                    self.args(args);
                    self.out.push(')');
                }
            }
            Tm::Dtor { scrut, name, tyargs, args } => {
                self.term(scrut, 2);
                self.out.push('.');
                self.out.push_str(name);
                self.tyargs(tyargs);
                if !args.is_empty() {
                    self.out.push('(');
                    self.args(args);
                    self.out.push(')');
                }
            }
            Tm::Case { scrut, tyargs, clauses } => {
                self.term(scrut, 2);
                self.out.push_str(".case");
                self.tyargs(tyargs);
                self.out.push(' ');
                self.clauses(clauses);
            }
            Tm::New { clauses } => {
                self.out.push_str("new ");
                self.clauses(clauses);
            }
            Tm::Label { name, body } => {
                let _ = write!(self.out, "label {name} {{");
                self.indent += 1;
                self.nl();
                self.term(body, 4);
                self.indent -= 1;
                self.nl();
                self.out.push('}');
            }
            Tm::Goto { name, arg } => {
                let _ = write!(self.out, "goto {name}(");
                self.term(arg, 4);
                self.out.push(')');
            }
            Tm::Exit(a) => {
                self.out.push_str("exit ");
                self.term(a, 4);
            }
            Tm::Paren(a) => {
                self.out.push('(');
                self.term(a, 4);
                self.out.push(')');
            }
        }
    }

    fn params(&mut self, ps: &[Param]) {
        for (i, p) in ps.iter().enumerate() {
            if i > 0 {
                self.out.push_str(", ");
            }
            if p.cns {
                let _ = write!(self.out, "{} :cns {}", p.name, p.ty.show());
            } else {
                let _ = write!(self.out, "{}: {}", p.name, p.ty.show());
            }
        }
    }

    pub fn type_decl(&mut self, d: &TypeDecl) {
        self.out.push_str(if d.codata { "codata " } else { "data " });
        self.out.push_str(&d.name);
        if !d.params.is_empty() {
            let _ = write!(self.out, "[{}]", d.params.join(", "));
        }
        self.out.push_str(" { ");
        for (i, x) in d.xtors.iter().enumerate() {
            if i > 0 {
                self.out.push_str(", ");
            }
            self.out.push_str(&x.name);
            if !x.args.is_empty() {
                self.out.push('(');
                self.params(&x.args);
                self.out.push(')');
            }
            if let Some(r) = &x.ret {
                let _ = write!(self.out, ": {}", r.show());
            }
        }
        self.out.push_str(" }\n");
    }

    pub fn def(&mut self, d: &Def) {
        let _ = write!(self.out, "def {}(", d.name);
        self.params(&d.params);
        let _ = write!(self.out, "): {} {{", d.ret.show());
        self.indent = 1;
        self.nl();
        self.term(&d.body, 4);
        self.indent = 0;
        self.out.push_str("\n}\n");
    }
}

pub fn emit_program(p: &Program) -> String {
    let mut e = Emitter::new();
    if p.order.is_empty() {
        for t in &p.types {
            e.type_decl(t);
        }
        e.out.push('\n');
        for d in &p.defs {
            e.def(d);
            e.out.push('\n');
        }
    } else {
        for o in &p.order {
            match o {
                Decl::Type(i) => e.type_decl(&p.types[*i]),
                Decl::Def(i) => {
                    e.def(&p.defs[*i]);
                    e.out.push('\n');
                }
            }
        }
    }
    e.out
}

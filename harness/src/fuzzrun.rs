//! Driving the libFuzzer targets under /verif/fuzz (thorough tiers of C16 and C18).

use crate::runner::Ctx;
use std::process::Command;

pub struct Campaign {
    pub executed: u64,
    pub artifacts: Vec<Vec<u8>>,
    pub log_tail: String,
}

pub fn campaign(ctx: &Ctx, target: &str, seeds: &[Vec<u8>], runs: u64, max_time_s: u64) -> Result<Campaign, String> {
    let corpus = ctx.scratch.join(format!("corpus_{target}"));
    let art = ctx.scratch.join(format!("art_{target}"));
    std::fs::create_dir_all(&corpus).map_err(|e| e.to_string())?;
    std::fs::create_dir_all(&art).map_err(|e| e.to_string())?;
    for (i, s) in seeds.iter().enumerate() {
        std::fs::write(corpus.join(format!("seed{i:04}")), s).map_err(|e| e.to_string())?;
    }
    let fuzz_dir = ctx.root.join("fuzz");
    let out = Command::new("cargo")
        .arg("+nightly")
        .args(["fuzz", "run", "--fuzz-dir"])
        .arg(&fuzz_dir)
        .arg(target)
        .arg(&corpus)
        .arg("--")
        .arg(format!("-runs={runs}"))
        .arg(format!("-seed={}", ctx.seed.max(1)))
        .arg("-max_len=4096")
        .arg("-len_control=0")
        .arg(format!("-max_total_time={max_time_s}"))
        .arg("-print_final_stats=1")
        .arg(format!("-artifact_prefix={}/", art.display()))
        .env("CARGO_NET_OFFLINE", "true")
        .current_dir(&fuzz_dir)
        .output()
        .map_err(|e| format!("cargo fuzz: {e}"))?;
    let log = String::from_utf8_lossy(&out.stderr).into_owned();
    let executed = log
        .lines()
        .find_map(|l| l.strip_prefix("stat::number_of_executed_units:").and_then(|v| v.trim().parse::<u64>().ok()))
        .unwrap_or(0);
    let mut artifacts = vec![];
    if let Ok(rd) = std::fs::read_dir(&art) {
        let mut files: Vec<_> = rd.flatten().map(|e| e.path()).collect();
        files.sort();
        for f in files {
            if let Ok(b) = std::fs::read(&f) {
                artifacts.push(b);
            }
        }
    }
    if executed == 0 && artifacts.is_empty() {
        let tail: Vec<&str> = log.lines().rev().take(12).collect();
        return Err(format!("fuzz target `{target}` did not run: {}", tail.into_iter().rev().collect::<Vec<_>>().join(" | ")));
    }
    let tail: Vec<&str> = log.lines().rev().take(6).collect();
    Ok(Campaign { executed, artifacts, log_tail: tail.into_iter().rev().collect::<Vec<_>>().join("\n") })
}

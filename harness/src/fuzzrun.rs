//! Driving the libFuzzer targets under /verif/fuzz (thorough tiers of C16 and C18).

use crate::runner::Ctx;
use std::process::Command;

pub struct Campaign {
    pub executed: u64,
    pub artifacts: Vec<Vec<u8>>,
    pub log_tail: String,
}

pub fn campaign(ctx: &Ctx, target: &str, seeds: &[Vec<u8>], runs: u64, max_time_s: u64) -> Result<Campaign, String> {
    campaign_with(ctx, target, "", seeds, runs, max_time_s)
}

/// `mode`: value of SCCV_FUZZ_MODE for the `semantic` target (empty for the text targets)
pub fn campaign_with(ctx: &Ctx, target: &str, mode: &str, seeds: &[Vec<u8>], runs: u64, max_time_s: u64) -> Result<Campaign, String> {
    let corpus = ctx.scratch.join(format!("corpus_{target}{mode}"));
    let art = ctx.scratch.join(format!("art_{target}{mode}"));
    std::fs::create_dir_all(&corpus).map_err(|e| e.to_string())?;
    std::fs::create_dir_all(&art).map_err(|e| e.to_string())?;
    for (i, s) in seeds.iter().enumerate() {
        std::fs::write(corpus.join(format!("seed{i:04}")), s).map_err(|e| e.to_string())?;
    }
    let fuzz_dir = ctx.root.join("fuzz");
    let out = Command::new("cargo")
        .arg("+nightly")
        .args(["fuzz", "run", "--fuzz-dir"])
        .arg(&fuzz_dir)
        .arg(target)
        .arg(&corpus)
        .arg("--")
        .arg(format!("-runs={runs}"))
        .arg(format!("-seed={}", ctx.seed.max(1)))
        .arg("-max_len=4096")
        .arg("-len_control=0")
        .arg(format!("-max_total_time={max_time_s}"))
        .arg("-print_final_stats=1")
        .arg("-detect_leaks=0")
        .arg("-rss_limit_mb=6000")
        .arg("-timeout=120")
        .arg(format!("-artifact_prefix={}/", art.display()))
        .env("CARGO_NET_OFFLINE", "true")
        .env("SCCV_FUZZ_MODE", mode)
        .env("SCCV_FUZZ_TIER", ctx.tier.name())
        .env("VERIF_ROOT", &ctx.root)
        .current_dir(&fuzz_dir)
        .output()
        .map_err(|e| format!("cargo fuzz: {e}"))?;
    let log = String::from_utf8_lossy(&out.stderr).into_owned();
    let executed = log
        .lines()
        .find_map(|l| l.strip_prefix("stat::number_of_executed_units:").and_then(|v| v.trim().parse::<u64>().ok()))
        .unwrap_or(0);
    let mut artifacts = vec![];
    if let Ok(rd) = std::fs::read_dir(&art) {
        let mut files: Vec<_> = rd.flatten().map(|e| e.path()).collect();
        files.sort();
        for f in files {
            // only crashes of the target count; slow-unit-/oom-/timeout-/leak- files say nothing
            // about the property
            let name = f.file_name().map(|n| n.to_string_lossy().into_owned()).unwrap_or_default();
            if !name.starts_with("crash-") {
                continue;
            }
            if let Ok(b) = std::fs::read(&f) {
                artifacts.push(b);
            }
        }
    }
    if executed == 0 && artifacts.is_empty() {
        let tail: Vec<&str> = log.lines().rev().take(12).collect();
        return Err(format!("fuzz target `{target}` did not run: {}", tail.into_iter().rev().collect::<Vec<_>>().join(" | ")));
    }
    let tail: Vec<&str> = log.lines().rev().take(6).collect();
    Ok(Campaign { executed, artifacts, log_tail: tail.into_iter().rev().collect::<Vec<_>>().join("\n") })
}

/// A coverage-guided campaign of the `semantic` target in one mode; every saved artifact is
/// re-run through `rerun` (the in-process oracle): a confirmed failure is returned as
/// (buffer, failure), an unconfirmed one as an infrastructure error.
pub fn semantic_phase(
    ctx: &Ctx,
    ev: &mut crate::runner::Evidence,
    report: &mut crate::runner::Report,
    mode: &str,
    stream: u64,
    sub: &str,
    secs: u64,
    rerun: &(dyn Fn(&[u8]) -> crate::runner::CaseResult + Sync),
) {
    use crate::runner::*;
    if ctx.tier != Tier::Thorough || !report.violations.is_empty() {
        return;
    }
    // SCCV_FUZZ_SECS shortens the campaigns (smoke tests of the machinery itself)
    let secs = std::env::var("SCCV_FUZZ_SECS").ok().and_then(|v| v.parse().ok()).unwrap_or(secs);
    let seeds = buffers(ctx.seed, stream, 200, 60, 1500);
    match campaign_with(ctx, "semantic", mode, &seeds, 4_000_000, secs) {
        Err(e) => report.infra_errors.push(e),
        Ok(c) => {
            ev.extra.insert(format!("libfuzzer_executed_units_{mode}"), serde_json::json!(c.executed));
            if !ev.rule.contains("coverage-guided") {
                ev.rule.push_str(" thorough: plus coverage-guided libFuzzer campaigns (target `semantic`) over the generators' choice buffers with the same oracle inside the target; every saved input is confirmed by the in-process oracle before it is reported.");
            }
            ev.evaluations += c.executed;
            for a in &c.artifacts {
                let r = rerun(a);
                if let CaseResult::Fail(f) = &r {
                    if report.violations.is_empty() {
                        eprintln!("libFuzzer artifact ({mode}): {}", f.summary);
                        report.violations.push(write_replay(ctx, sub, a, f));
                    }
                } else {
                    // keep it for inspection (replays/ is not committed)
                    let dir = ctx.root.join("replays").join(&ctx.id);
                    let _ = std::fs::create_dir_all(&dir);
                    let _ = std::fs::write(dir.join(format!("unconfirmed-{}-{:016x}.bin", mode.replace('@', "_"), hash_str(&format!("{a:?}")))), a);
                    report.infra_errors.push(format!("libFuzzer ({mode}) saved an input that the in-process oracle does not reproduce"));
                }
            }
        }
    }
}

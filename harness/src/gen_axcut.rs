//! Generator of *non-linear* AxCut programs (input language of the linearizer): variables are
//! used any number of times, may be dead, may be used in several branches, a scrutinee may stay
//! live after its `switch`, closure environments may overlap the continuation's variables.
//! Binders are unique along every path (the linearizer's precondition).

use crate::choice::Chooser;
use axcut::syntax as ax;
use axcut::syntax::statements as st;
use std::rc::Rc;

pub struct NlCfg {
    pub size: usize,
    pub max_main_params: usize,
    pub max_env: usize,
}

type Env = Vec<ax::ContextBinding>;

struct Sig {
    name: ax::Identifier,
    params: Env,
}

pub struct GenNl<'a> {
    pub c: Chooser<'a>,
    cfg: NlCfg,
    types: Vec<ax::TypeDeclaration>,
    next_id: usize,
    sigs: Vec<Sig>,
    cur: usize,
    nonzero: Vec<usize>,
}

fn ident(n: &str, id: usize) -> ax::Identifier {
    ax::Identifier { name: n.to_string(), id }
}
fn ext(v: ax::Identifier) -> ax::ContextBinding {
    ax::ContextBinding { var: v, chi: ax::Chirality::Ext, ty: ax::Ty::I64 }
}
fn ctx(b: Vec<ax::ContextBinding>) -> ax::TypingContext {
    ax::TypingContext { bindings: b }
}

impl<'a> GenNl<'a> {
    pub fn new(buf: &'a [u8], cfg: NlCfg) -> Self {
        GenNl { c: Chooser::new(buf), cfg, types: vec![], next_id: 0, sigs: vec![], cur: 0, nonzero: vec![] }
    }

    fn fresh(&mut self, n: &str) -> ax::Identifier {
        self.next_id += 1;
        ident(n, self.next_id)
    }

    fn gen_types(&mut self) {
        let n = 1 + self.c.weighted(&[30, 40, 20, 10]);
        for t in 0..n {
            let nx = 1 + self.c.weighted(&[25, 35, 20, 10, 6, 4]);
            let mut xtors = vec![];
            for x in 0..nx {
                let nargs = if x == 0 { self.c.weighted(&[30, 40, 20, 10]) } else if self.c.prob(40) { 4 + self.c.choose(4) } else { self.c.weighted(&[20, 35, 30, 15]) };
                let mut args = vec![];
                for a in 0..nargs {
                    let kind = if x == 0 { 0 } else { self.c.weighted(&[55, 30, 15]) };
                    let ty = ax::Ty::Decl(ident(&format!("T{}", self.c.choose(n)), 0));
                    args.push(match kind {
                        0 => ext(ident(&format!("f{a}"), 0)),
                        1 => ax::ContextBinding { var: ident(&format!("f{a}"), 0), chi: ax::Chirality::Prd, ty },
                        _ => ax::ContextBinding { var: ident(&format!("f{a}"), 0), chi: ax::Chirality::Cns, ty },
                    });
                }
                xtors.push(ax::XtorSig { name: ident(&format!("K{t}x{x}"), 0), args: ctx(args) });
            }
            self.types.push(ax::TypeDeclaration { name: ident(&format!("T{t}"), 0), xtors });
        }
    }

    fn decl(&self, ty: &ax::Ty) -> ax::TypeDeclaration {
        match ty {
            ax::Ty::Decl(n) => self.types.iter().find(|d| d.name == *n).expect("type").clone(),
            _ => unreachable!(),
        }
    }

    fn any_type(&mut self) -> ax::Ty {
        let i = self.c.choose(self.types.len());
        ax::Ty::Decl(self.types[i].name.clone())
    }

    fn vars(env: &Env, chi: &ax::Chirality, ty: &ax::Ty) -> Vec<ax::ContextBinding> {
        env.iter().filter(|b| b.chi == *chi && b.ty == *ty).cloned().collect()
    }

    /// arguments for a signature, taken from the environment (integers may be fresh literals)
    fn pick(&mut self, env: &mut Env, sig: &[ax::ContextBinding], lits: &mut Vec<(i64, ax::Identifier)>) -> Option<Vec<ax::ContextBinding>> {
        let mut out = vec![];
        let n0 = env.len();
        for a in sig {
            let cands = Self::vars(env, &a.chi, &a.ty);
            if cands.is_empty() || (a.chi == ax::Chirality::Ext && self.c.prob(40)) {
                if a.chi != ax::Chirality::Ext {
                    // undo: the literals collected so far will not be emitted
                    env.truncate(n0);
                    lits.clear();
                    return None;
                }
                let v = self.fresh("l");
                let n = self.c.interesting_i64();
                if n != 0 {
                    self.nonzero.push(v.id);
                }
                lits.push((n, v.clone()));
                env.push(ext(v.clone()));
                out.push(ext(v));
            } else {
                out.push(cands[self.c.choose(cands.len())].clone());
            }
        }
        Some(out)
    }

    fn with_lits(lits: Vec<(i64, ax::Identifier)>, next: ax::Statement) -> ax::Statement {
        let mut s = next;
        for (n, v) in lits.into_iter().rev() {
            s = ax::Statement::Literal(st::Literal { lit: n, var: v, next: Rc::new(s), free_vars_next: None });
        }
        s
    }

    fn exit(&mut self, env: &Env) -> ax::Statement {
        let exts: Vec<&ax::ContextBinding> = env.iter().filter(|b| b.chi == ax::Chirality::Ext).collect();
        if exts.is_empty() {
            let v = self.fresh("r");
            return ax::Statement::Literal(st::Literal {
                lit: 3,
                var: v.clone(),
                next: Rc::new(ax::Statement::Exit(st::Exit { var: v })),
                free_vars_next: None,
            });
        }
        let v = exts[self.c.choose(exts.len())].var.clone();
        ax::Statement::Exit(st::Exit { var: v })
    }

    fn terminator(&mut self, mut env: Env) -> ax::Statement {
        match self.c.weighted(&[50, 25, 25]) {
            1 if self.cur + 1 < self.sigs.len() => {
                let j = self.cur + 1 + self.c.choose(self.sigs.len() - self.cur - 1);
                let params = self.sigs[j].params.clone();
                let label = self.sigs[j].name.clone();
                let mut lits = vec![];
                match self.pick(&mut env, &params, &mut lits) {
                    Some(args) => Self::with_lits(lits, ax::Statement::Call(st::Call { label, args: ctx(args) })),
                    None => self.exit(&env),
                }
            }
            2 => {
                let closures: Vec<ax::ContextBinding> = env.iter().filter(|b| b.chi == ax::Chirality::Cns).cloned().collect();
                if closures.is_empty() {
                    return self.exit(&env);
                }
                let cb = closures[self.c.choose(closures.len())].clone();
                let d = self.decl(&cb.ty);
                let x = d.xtors[self.c.choose(d.xtors.len())].clone();
                let mut lits = vec![];
                match self.pick(&mut env, &x.args.bindings, &mut lits) {
                    Some(args) => Self::with_lits(
                        lits,
                        ax::Statement::Invoke(st::Invoke { var: cb.var, tag: x.name, ty: cb.ty, args: ctx(args) }),
                    ),
                    None => self.exit(&env),
                }
            }
            _ => self.exit(&env),
        }
    }

    pub fn stmt(&mut self, mut env: Env, size: usize) -> ax::Statement {
        if size == 0 || env.len() > self.cfg.max_env {
            return self.terminator(env);
        }
        let exts: Vec<ax::ContextBinding> = env.iter().filter(|b| b.chi == ax::Chirality::Ext).cloned().collect();
        let objs: Vec<ax::ContextBinding> = env.iter().filter(|b| b.chi == ax::Chirality::Prd).cloned().collect();
        let w = [
            16,
            if exts.is_empty() { 0 } else { 22 },
            if exts.is_empty() { 0 } else { 8 },
            16,
            10,
            if objs.is_empty() { 0 } else { 14 },
            if exts.is_empty() { 0 } else { 10 },
            3,
        ];
        match self.c.weighted(&w) {
            0 => {
                let v = self.fresh("x");
                let n = self.c.interesting_i64();
                if n != 0 {
                    self.nonzero.push(v.id);
                }
                env.push(ext(v.clone()));
                let next = self.stmt(env, size - 1);
                ax::Statement::Literal(st::Literal { lit: n, var: v, next: Rc::new(next), free_vars_next: None })
            }
            1 => {
                let a = exts[self.c.choose(exts.len())].var.clone();
                let op = match self.c.weighted(&[30, 25, 20, 12, 12]) {
                    0 => ax::BinOp::Sum,
                    1 => ax::BinOp::Sub,
                    2 => ax::BinOp::Prod,
                    3 => ax::BinOp::Div,
                    _ => ax::BinOp::Rem,
                };
                let nz: Vec<&ax::ContextBinding> = exts.iter().filter(|b| self.nonzero.contains(&b.var.id)).collect();
                let b = if matches!(op, ax::BinOp::Div | ax::BinOp::Rem) && !nz.is_empty() && !self.c.prob(20) {
                    nz[self.c.choose(nz.len())].var.clone()
                } else {
                    exts[self.c.choose(exts.len())].var.clone()
                };
                let v = self.fresh("y");
                env.push(ext(v.clone()));
                let next = self.stmt(env, size - 1);
                ax::Statement::Op(st::Op { fst: a, op, snd: b, var: v, next: Rc::new(next), free_vars_next: None })
            }
            2 => {
                let v = exts[self.c.choose(exts.len())].var.clone();
                let newline = self.c.boolean();
                let next = self.stmt(env, size - 1);
                ax::Statement::PrintI64(st::PrintI64 { newline, var: v, next: Rc::new(next), free_vars_next: None })
            }
            3 => {
                let ty = self.any_type();
                let d = self.decl(&ty);
                let x = d.xtors[self.c.choose(d.xtors.len())].clone();
                let mut lits = vec![];
                let Some(args) = self.pick(&mut env, &x.args.bindings, &mut lits) else {
                    return self.stmt(env, size - 1);
                };
                let v = self.fresh("o");
                env.push(ax::ContextBinding { var: v.clone(), chi: ax::Chirality::Prd, ty: ty.clone() });
                let next = self.stmt(env, size - 1);
                Self::with_lits(
                    lits,
                    ax::Statement::Let(st::Let { var: v, ty, tag: x.name, args: ctx(args), next: Rc::new(next), free_vars_next: None }),
                )
            }
            4 => {
                let ty = self.any_type();
                let d = self.decl(&ty);
                let per = (size / (d.xtors.len() + 1)).min(8);
                let mut clauses = vec![];
                for x in &d.xtors {
                    let params: Vec<ax::ContextBinding> = x
                        .args
                        .bindings
                        .iter()
                        .map(|a| ax::ContextBinding { var: self.fresh("p"), chi: a.chi.clone(), ty: a.ty.clone() })
                        .collect();
                    let mut menv = env.clone();
                    menv.extend(params.iter().cloned());
                    let saved = self.nonzero.clone();
                    let body = self.stmt(menv, per);
                    self.nonzero = saved;
                    clauses.push(st::Clause { xtor: x.name.clone(), context: ctx(params), body: Rc::new(body) });
                }
                let v = self.fresh("k");
                env.push(ax::ContextBinding { var: v.clone(), chi: ax::Chirality::Cns, ty: ty.clone() });
                let next = self.stmt(env, size - 1 - per.min(size - 1));
                ax::Statement::Create(st::Create {
                    var: v,
                    ty,
                    context: None,
                    clauses,
                    free_vars_clauses: None,
                    next: Rc::new(next),
                    free_vars_next: None,
                })
            }
            5 => {
                let ob = objs[self.c.choose(objs.len())].clone();
                let d = self.decl(&ob.ty);
                let per = (size - 1) / d.xtors.len().max(1);
                let mut clauses = vec![];
                for x in &d.xtors {
                    let fields: Vec<ax::ContextBinding> = x
                        .args
                        .bindings
                        .iter()
                        .map(|a| ax::ContextBinding { var: self.fresh("q"), chi: a.chi.clone(), ty: a.ty.clone() })
                        .collect();
                    let mut cenv = env.clone();
                    cenv.extend(fields.iter().cloned());
                    let saved = self.nonzero.clone();
                    let body = self.stmt(cenv, per);
                    self.nonzero = saved;
                    clauses.push(st::Clause { xtor: x.name.clone(), context: ctx(fields), body: Rc::new(body) });
                }
                ax::Statement::Switch(st::Switch { var: ob.var, ty: ob.ty, clauses, free_vars_clauses: None })
            }
            6 => {
                let a = exts[self.c.choose(exts.len())].var.clone();
                let b = if self.c.prob(100) { None } else { Some(exts[self.c.choose(exts.len())].var.clone()) };
                use st::ifc::IfSort::*;
                let sort = [Equal, NotEqual, Less, LessOrEqual, Greater, GreaterOrEqual][self.c.choose(6)];
                let saved = self.nonzero.clone();
                let t = self.stmt(env.clone(), (size - 1) / 2);
                self.nonzero = saved.clone();
                let e = self.stmt(env, (size - 1) / 2);
                self.nonzero = saved;
                ax::Statement::IfC(st::IfC { sort, fst: a, snd: b, thenc: Rc::new(t), elsec: Rc::new(e) })
            }
            _ => self.terminator(env),
        }
    }

    pub fn program(&mut self) -> ax::Prog {
        self.gen_types();
        let ndefs = 1 + self.c.weighted(&[40, 35, 25]);
        let nmain = self.c.choose(self.cfg.max_main_params + 1);
        let mut sigs = vec![Sig { name: ident("main", 0), params: (0..nmain).map(|_| ext(self.fresh("a"))).collect() }];
        for i in 1..ndefs {
            let np = self.c.choose(7);
            let mut params = vec![];
            for _ in 0..np {
                params.push(match self.c.weighted(&[60, 25, 15]) {
                    0 => ext(self.fresh("p")),
                    1 => ax::ContextBinding { var: self.fresh("p"), chi: ax::Chirality::Prd, ty: self.any_type() },
                    _ => ax::ContextBinding { var: self.fresh("p"), chi: ax::Chirality::Cns, ty: self.any_type() },
                });
            }
            sigs.push(Sig { name: ident(&format!("f{i}"), 0), params });
        }
        self.sigs = sigs;
        let mut defs = vec![];
        for i in 0..self.sigs.len() {
            self.cur = i;
            self.nonzero.clear();
            let env = self.sigs[i].params.clone();
            let size = if i == 0 { self.cfg.size } else { self.cfg.size / 2 };
            let body = self.stmt(env.clone(), size);
            defs.push(ax::Def { name: self.sigs[i].name.clone(), context: ctx(env), body });
        }
        ax::Prog { defs, types: self.types.clone(), max_id: self.next_id }
    }
}

pub fn gen_nonlinear(buf: &[u8], cfg: NlCfg, k: usize) -> (ax::Prog, Vec<Vec<i64>>) {
    let maxp = cfg.max_main_params;
    let mut g = GenNl::new(buf, cfg);
    let pre: Vec<Vec<i64>> = (0..k).map(|_| (0..maxp).map(|_| g.c.interesting_i64()).collect()).collect();
    let p = g.program();
    let n = p.defs[0].context.bindings.len();
    (p, pre.into_iter().map(|t: Vec<i64>| t[..n].to_vec()).collect())
}

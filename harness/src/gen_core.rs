//! Generator of well-typed *unfocused* Core programs, built directly as `core_lang` syntax trees
//! (not through the Fun front end).  It reaches Core programs the translation never produces:
//! every combination of producer and consumer forms in a cut at every kind of type, mu and
//! mu-tilde abstractions, (co)matches and xtors nested in any argument position, constructors
//! with consumer fields, destructors without a return continuation, xtor names shared between
//! types (as between monomorphic instances), binders shadowing names of
//! either chirality (variables and covariables share one namespace, see `names.rs`).
//!
//! Termination: definition i calls only definitions j > i, or itself through a `fuel` parameter
//! that decreases at every recursive call.

use crate::choice::Chooser;
use core_lang::syntax as cs;
use core_lang::syntax::statements::PrintI64;
use std::rc::Rc;

#[derive(Clone, Debug)]
pub struct CoreCfg {
    pub size: usize,
    pub max_defs: usize,
    pub max_main_params: usize,
    /// probability (/256) that a binder reuses a visible name (shadowing)
    pub reuse: u32,
    pub allow_print: bool,
}

impl Default for CoreCfg {
    fn default() -> Self {
        CoreCfg { size: 30, max_defs: 3, max_main_params: 3, reuse: 50, allow_print: true }
    }
}

#[derive(Clone, PartialEq, Eq, Debug)]
enum T {
    I64,
    Data(usize),
    Codata(usize),
}

#[derive(Clone, Debug)]
struct XSig {
    name: String,
    args: Vec<(bool, T)>,
}

#[derive(Clone, Debug)]
struct TDecl {
    name: String,
    xtors: Vec<XSig>,
}

#[derive(Clone, Debug)]
struct Bind {
    name: String,
    prd: bool,
    ty: T,
}

#[derive(Clone, Debug)]
struct Sig {
    name: String,
    params: Vec<Bind>,
    rec: bool,
}

#[derive(Default, Clone, Debug)]
pub struct CoreGenStats {
    /// cuts by "producer form|consumer form@type kind"
    pub cut_shapes: Vec<String>,
    pub nonvalue_args: usize,
    pub shadowing: usize,
    pub shared_xtor_names: bool,
    pub cns_fields: bool,
    pub calls: usize,
    pub rec_calls: usize,
}

pub struct GenCore<'a> {
    pub c: Chooser<'a>,
    cfg: CoreCfg,
    data: Vec<TDecl>,
    codata: Vec<TDecl>,
    sigs: Vec<Sig>,
    cur: usize,
    /// nesting of sub-statements generated at size 0 (bounds the recursion of base terms)
    depth: usize,
    pub stats: CoreGenStats,
}

const VARS: [&str; 10] = ["x", "y", "z", "v", "w", "n", "m", "p", "q", "t"];
const COVARS: [&str; 6] = ["a", "b", "k", "r", "c", "j"];
const FUEL: &str = "fuel";

fn id(n: &str) -> cs::Identifier {
    cs::Identifier::new(n.to_string())
}

impl<'a> GenCore<'a> {
    pub fn new(buf: &'a [u8], cfg: CoreCfg) -> Self {
        GenCore { c: Chooser::new(buf), cfg, data: vec![], codata: vec![], sigs: vec![], cur: 0, depth: 0, stats: CoreGenStats::default() }
    }

    // ------------------------------------------------------------------ types
    fn ty(&self, t: &T) -> cs::Ty {
        match t {
            T::I64 => cs::Ty::I64,
            T::Data(i) => cs::Ty::Decl(id(&self.data[*i].name)),
            T::Codata(i) => cs::Ty::Decl(id(&self.codata[*i].name)),
        }
    }

    fn kind(t: &T) -> &'static str {
        match t {
            T::I64 => "int",
            T::Data(_) => "data",
            T::Codata(_) => "codata",
        }
    }

    fn random_ty(&mut self, nd: usize, nc: usize) -> T {
        match self.c.weighted(&[55, 25, 20]) {
            0 => T::I64,
            1 if nd > 0 => T::Data(self.c.choose(nd)),
            2 if nc > 0 => T::Codata(self.c.choose(nc)),
            _ => T::I64,
        }
    }

    fn gen_types(&mut self) {
        let nd = 1 + self.c.weighted(&[40, 40, 20]);
        let nc = 1 + self.c.weighted(&[45, 40, 15]);
        for i in 0..nd {
            self.data.push(TDecl { name: format!("D{i}"), xtors: vec![] });
        }
        for i in 0..nc {
            self.codata.push(TDecl { name: format!("C{i}"), xtors: vec![] });
        }
        for i in 0..nd {
            let nx = 1 + self.c.weighted(&[20, 40, 25, 15]);
            // a later data type may reuse the constructor names of the first one
            let share = i > 0 && self.c.prob(70);
            if share {
                self.stats.shared_xtor_names = true;
            }
            for x in 0..nx {
                let na = if x == 0 { self.c.weighted(&[60, 30, 10]) } else { self.c.weighted(&[20, 35, 25, 12, 5, 3]) };
                let mut args = vec![];
                for _ in 0..na {
                    let prd = !self.c.prob(40);
                    // the first constructor is not recursive, so every type has a finite value
                    let t = if x == 0 { T::I64 } else { self.random_ty(nd, nc) };
                    if !prd {
                        self.stats.cns_fields = true;
                    }
                    args.push((prd, t));
                }
                let name = if share && x < self.data[0].xtors.len() { self.data[0].xtors[x].name.clone() } else { format!("K{i}_{x}") };
                self.data[i].xtors.push(XSig { name, args });
            }
        }
        for i in 0..nc {
            let nx = 1 + self.c.weighted(&[35, 40, 15, 10]);
            let share = i > 0 && self.c.prob(70);
            if share {
                self.stats.shared_xtor_names = true;
            }
            for x in 0..nx {
                let na = self.c.weighted(&[10, 35, 30, 15, 7, 3]);
                let mut args = vec![];
                for a in 0..na {
                    // destructors usually end with a continuation for the result
                    let prd = if a + 1 == na { self.c.prob(50) } else { !self.c.prob(30) };
                    let t = self.random_ty(nd, nc);
                    args.push((prd, t));
                }
                let name = if share && x < self.codata[0].xtors.len() { self.codata[0].xtors[x].name.clone() } else { format!("d{i}_{x}") };
                self.codata[i].xtors.push(XSig { name, args });
            }
        }
    }

    fn all_types(&self) -> Vec<T> {
        let mut v = vec![T::I64];
        v.extend((0..self.data.len()).map(T::Data));
        v.extend((0..self.codata.len()).map(T::Codata));
        v
    }

    fn decls(&self) -> (Vec<cs::DataDeclaration>, Vec<cs::CodataDeclaration>) {
        let ctx = |g: &Self, x: &XSig| cs::TypingContext {
            bindings: x
                .args
                .iter()
                .enumerate()
                .map(|(i, (prd, t))| cs::ContextBinding {
                    var: id(&format!("f{i}")),
                    chi: if *prd { cs::Chirality::Prd } else { cs::Chirality::Cns },
                    ty: g.ty(t),
                })
                .collect(),
        };
        let data = self
            .data
            .iter()
            .map(|d| cs::DataDeclaration {
                dat: cs::Data,
                name: id(&d.name),
                xtors: d.xtors.iter().map(|x| cs::CtorSig { xtor: cs::Data, name: id(&x.name), args: ctx(self, x) }).collect(),
            })
            .collect();
        let codata = self
            .codata
            .iter()
            .map(|d| cs::CodataDeclaration {
                dat: cs::Codata,
                name: id(&d.name),
                xtors: d.xtors.iter().map(|x| cs::DtorSig { xtor: cs::Codata, name: id(&x.name), args: ctx(self, x) }).collect(),
            })
            .collect();
        (data, codata)
    }

    // ------------------------------------------------------------------ scopes
    fn visible<'e>(env: &'e [Bind], name: &str) -> Option<&'e Bind> {
        env.iter().rev().find(|b| b.name == name)
    }

    fn vars_of(env: &[Bind], prd: bool, ty: &T) -> Vec<String> {
        let mut out: Vec<String> = vec![];
        for (i, b) in env.iter().enumerate() {
            if b.prd == prd && &b.ty == ty && !env[i + 1..].iter().any(|l| l.name == b.name) {
                out.push(b.name.clone());
            }
        }
        out
    }

    /// a binder name; `avoid`: names bound by the same binding group (clause, parameter list)
    fn binder(&mut self, env: &[Bind], prd: bool, avoid: &[String]) -> String {
        if !env.is_empty() && self.c.prob(self.cfg.reuse) {
            let b = &env[self.c.choose(env.len())];
            if b.name != FUEL && !avoid.contains(&b.name) {
                self.stats.shadowing += 1;
                return b.name.clone();
            }
        }
        let base = if prd { VARS[self.c.choose(VARS.len())] } else { COVARS[self.c.choose(COVARS.len())] };
        let mut name = base.to_string();
        let mut i = 0;
        while avoid.contains(&name) || Self::visible(env, &name).is_some() {
            i += 1;
            name = format!("{base}{i}");
        }
        name
    }

    // ------------------------------------------------------------------ terms
    fn lit(&mut self) -> i64 {
        if self.c.prob(25) { self.c.interesting_i64() } else { self.c.int_in(-3, 12) }
    }

    fn var_term(&self, name: &str, ty: &T) -> cs::Term<cs::Prd> {
        cs::XVar::var(id(name), self.ty(ty)).into()
    }

    fn covar_term(&self, name: &str, ty: &T) -> cs::Term<cs::Cns> {
        cs::XVar::covar(id(name), self.ty(ty)).into()
    }

    /// a small producer without sub-statements where possible
    fn base_prd(&mut self, env: &mut Vec<Bind>, ty: &T, depth: usize) -> cs::Term<cs::Prd> {
        let vs = Self::vars_of(env, true, ty);
        if !vs.is_empty() && (depth > 3 || self.c.prob(170)) {
            let k = self.c.choose(vs.len());
            return self.var_term(&vs[k], ty);
        }
        match ty {
            T::I64 => cs::Literal { lit: self.lit() }.into(),
            T::Data(i) => {
                let x = self.data[*i].xtors[0].clone();
                self.xtor_prd(env, ty, &x, 0, depth + 1)
            }
            T::Codata(_) => self.cocase(env, ty, 0),
        }
    }

    fn base_cns(&mut self, env: &mut Vec<Bind>, ty: &T) -> cs::Term<cs::Cns> {
        let vs = Self::vars_of(env, false, ty);
        if !vs.is_empty() && self.c.prob(170) {
            let k = self.c.choose(vs.len());
            return self.covar_term(&vs[k], ty);
        }
        self.mu_tilde(env, ty, 0)
    }

    fn args(&mut self, env: &mut Vec<Bind>, sig: &[(bool, T)], n: usize, depth: usize) -> cs::Arguments {
        let share = if sig.is_empty() { 0 } else { n / sig.len() };
        let mut entries = vec![];
        for (prd, t) in sig {
            if *prd {
                let p = if share == 0 { self.base_prd(env, t, depth) } else { self.prd(env, t, share) };
                if !matches!(p, cs::Term::XVar(_)) {
                    self.stats.nonvalue_args += 1;
                }
                entries.push(cs::Producer(p));
            } else {
                let c = if share == 0 { self.base_cns(env, t) } else { self.cns(env, t, share) };
                if !matches!(c, cs::Term::XVar(_)) {
                    self.stats.nonvalue_args += 1;
                }
                entries.push(cs::Consumer(c));
            }
        }
        cs::Arguments { entries }
    }

    fn xtor_prd(&mut self, env: &mut Vec<Bind>, ty: &T, x: &XSig, n: usize, depth: usize) -> cs::Term<cs::Prd> {
        let args = self.args(env, &x.args, n, depth);
        cs::Xtor { prdcns: cs::Prd, name: id(&x.name), args, ty: self.ty(ty) }.into()
    }

    fn clauses<C: cs::Chi>(&mut self, env: &mut Vec<Bind>, chi: C, xtors: &[XSig], n: usize) -> Vec<cs::Clause<C>> {
        let share = n / xtors.len().max(1);
        let mut out = vec![];
        for x in xtors {
            let mut names: Vec<String> = vec![];
            let mark = env.len();
            let mut bindings = vec![];
            for (prd, t) in &x.args {
                let nm = self.binder(&env[..mark], *prd, &names);
                names.push(nm.clone());
                bindings.push(cs::ContextBinding {
                    var: id(&nm),
                    chi: if *prd { cs::Chirality::Prd } else { cs::Chirality::Cns },
                    ty: self.ty(t),
                });
            }
            for ((prd, t), nm) in x.args.iter().zip(&names) {
                env.push(Bind { name: nm.clone(), prd: *prd, ty: t.clone() });
            }
            let body = self.stmt(env, share);
            env.truncate(mark);
            out.push(cs::Clause { prdcns: chi.clone(), xtor: id(&x.name), context: cs::TypingContext { bindings }, body: Rc::new(body) });
        }
        // clauses stay in declaration order: the Fun type checker establishes this order and the
        // jump tables of the backends rely on it
        out
    }

    fn cocase(&mut self, env: &mut Vec<Bind>, ty: &T, n: usize) -> cs::Term<cs::Prd> {
        let T::Codata(i) = ty else { unreachable!() };
        let xtors = self.codata[*i].xtors.clone();
        let clauses = self.clauses(env, cs::Prd, &xtors, n);
        cs::XCase { prdcns: cs::Prd, clauses, ty: self.ty(ty) }.into()
    }

    fn case(&mut self, env: &mut Vec<Bind>, ty: &T, n: usize) -> cs::Term<cs::Cns> {
        let T::Data(i) = ty else { unreachable!() };
        let xtors = self.data[*i].xtors.clone();
        let clauses = self.clauses(env, cs::Cns, &xtors, n);
        cs::XCase { prdcns: cs::Cns, clauses, ty: self.ty(ty) }.into()
    }

    fn mu(&mut self, env: &mut Vec<Bind>, ty: &T, n: usize) -> cs::Term<cs::Prd> {
        let a = self.binder(env, false, &[]);
        env.push(Bind { name: a.clone(), prd: false, ty: ty.clone() });
        let body = self.stmt(env, n);
        env.pop();
        cs::Mu::mu(id(&a), body, self.ty(ty)).into()
    }

    fn mu_tilde(&mut self, env: &mut Vec<Bind>, ty: &T, n: usize) -> cs::Term<cs::Cns> {
        let x = self.binder(env, true, &[]);
        env.push(Bind { name: x.clone(), prd: true, ty: ty.clone() });
        let body = self.stmt(env, n);
        env.pop();
        cs::Mu::tilde_mu(id(&x), body, self.ty(ty)).into()
    }

    fn prd(&mut self, env: &mut Vec<Bind>, ty: &T, n: usize) -> cs::Term<cs::Prd> {
        if n == 0 {
            return self.base_prd(env, ty, 0);
        }
        let vs = Self::vars_of(env, true, ty);
        let wv = if vs.is_empty() { 0 } else { 25 };
        match ty {
            T::I64 => match self.c.weighted(&[wv, 25, 30, 20]) {
                0 => {
                    let k = self.c.choose(vs.len());
                    self.var_term(&vs[k], ty)
                }
                1 => cs::Literal { lit: self.lit() }.into(),
                2 => {
                    let op = match self.c.weighted(&[35, 30, 25, 5, 5]) {
                        0 => cs::BinOp::Sum,
                        1 => cs::BinOp::Sub,
                        2 => cs::BinOp::Prod,
                        3 => cs::BinOp::Div,
                        _ => cs::BinOp::Rem,
                    };
                    let fst = self.prd(env, ty, (n - 1) / 2);
                    let snd = self.prd(env, ty, (n - 1) / 2);
                    for o in [&fst, &snd] {
                        if !matches!(o, cs::Term::XVar(_)) {
                            self.stats.nonvalue_args += 1;
                        }
                    }
                    cs::Op { fst: Rc::new(fst), op, snd: Rc::new(snd) }.into()
                }
                _ => self.mu(env, ty, n - 1),
            },
            T::Data(i) => match self.c.weighted(&[wv, 55, 20]) {
                0 => {
                    let k = self.c.choose(vs.len());
                    self.var_term(&vs[k], ty)
                }
                1 => {
                    let k = self.c.choose(self.data[*i].xtors.len());
                    let x = self.data[*i].xtors[k].clone();
                    self.xtor_prd(env, ty, &x, n - 1, 0)
                }
                _ => self.mu(env, ty, n - 1),
            },
            T::Codata(_) => match self.c.weighted(&[wv, 55, 20]) {
                0 => {
                    let k = self.c.choose(vs.len());
                    self.var_term(&vs[k], ty)
                }
                1 => self.cocase(env, ty, n - 1),
                _ => self.mu(env, ty, n - 1),
            },
        }
    }

    fn cns(&mut self, env: &mut Vec<Bind>, ty: &T, n: usize) -> cs::Term<cs::Cns> {
        if n == 0 {
            return self.base_cns(env, ty);
        }
        let vs = Self::vars_of(env, false, ty);
        let wv = if vs.is_empty() { 0 } else { 30 };
        match ty {
            T::I64 => match self.c.weighted(&[wv, 60]) {
                0 => {
                    let k = self.c.choose(vs.len());
                    self.covar_term(&vs[k], ty)
                }
                _ => self.mu_tilde(env, ty, n - 1),
            },
            T::Data(_) => match self.c.weighted(&[wv, 30, 50]) {
                0 => {
                    let k = self.c.choose(vs.len());
                    self.covar_term(&vs[k], ty)
                }
                1 => self.mu_tilde(env, ty, n - 1),
                _ => self.case(env, ty, n - 1),
            },
            T::Codata(i) => match self.c.weighted(&[wv, 25, 55]) {
                0 => {
                    let k = self.c.choose(vs.len());
                    self.covar_term(&vs[k], ty)
                }
                1 => self.mu_tilde(env, ty, n - 1),
                _ => {
                    let k = self.c.choose(self.codata[*i].xtors.len());
                    let x = self.codata[*i].xtors[k].clone();
                    let args = self.args(env, &x.args, n - 1, 0);
                    cs::Xtor { prdcns: cs::Cns, name: id(&x.name), args, ty: self.ty(ty) }.into()
                }
            },
        }
    }

    // ------------------------------------------------------------------ statements
    fn shape_p(t: &cs::Term<cs::Prd>) -> &'static str {
        match t {
            cs::Term::XVar(_) => "var",
            cs::Term::Literal(_) => "lit",
            cs::Term::Op(_) => "op",
            cs::Term::Mu(_) => "mu",
            cs::Term::Xtor(_) => "ctor",
            cs::Term::XCase(_) => "cocase",
        }
    }

    fn shape_c(t: &cs::Term<cs::Cns>) -> &'static str {
        match t {
            cs::Term::XVar(_) => "covar",
            cs::Term::Mu(_) => "mutilde",
            cs::Term::Xtor(_) => "dtor",
            cs::Term::XCase(_) => "case",
            _ => "?",
        }
    }

    fn cut(&mut self, p: cs::Term<cs::Prd>, c: cs::Term<cs::Cns>, ty: &T) -> cs::Statement {
        self.stats.cut_shapes.push(format!("{}|{}@{}", Self::shape_p(&p), Self::shape_c(&c), Self::kind(ty)));
        cs::Cut::new(p, c, self.ty(ty)).into()
    }

    fn exit(&mut self, arg: cs::Term<cs::Prd>) -> cs::Statement {
        if !matches!(arg, cs::Term::XVar(_)) {
            self.stats.nonvalue_args += 1;
        }
        cs::Statement::Exit(cs::Exit { arg: Rc::new(arg), ty: cs::Ty::I64 })
    }

    fn terminal(&mut self, env: &mut Vec<Bind>) -> cs::Statement {
        if self.depth >= 3 {
            let vs = Self::vars_of(env, true, &T::I64);
            let a: cs::Term<cs::Prd> = if vs.is_empty() { cs::Literal { lit: self.lit() }.into() } else { self.var_term(&vs[vs.len() - 1], &T::I64) };
            return self.exit(a);
        }
        self.depth += 1;
        let s = self.terminal_inner(env);
        self.depth -= 1;
        s
    }

    fn terminal_inner(&mut self, env: &mut Vec<Bind>) -> cs::Statement {
        // jump to a covariable in scope, or stop
        let mut targets: Vec<(String, T)> = vec![];
        for (i, b) in env.iter().enumerate() {
            if !b.prd && !env[i + 1..].iter().any(|l| l.name == b.name) {
                targets.push((b.name.clone(), b.ty.clone()));
            }
        }
        if !targets.is_empty() && self.c.prob(200) {
            // prefer the innermost covariables
            let k = targets.len() - 1 - self.c.weighted(&[50, 25, 15, 10]).min(targets.len() - 1);
            let (name, ty) = targets[k].clone();
            let p = self.base_prd(env, &ty, 0);
            let c = self.covar_term(&name, &ty);
            return self.cut(p, c, &ty);
        }
        let a = self.base_prd(env, &T::I64, 0);
        self.exit(a)
    }

    fn callable(&self) -> Vec<usize> {
        let mut v: Vec<usize> = (self.cur + 1..self.sigs.len()).collect();
        if self.sigs[self.cur].rec {
            v.push(self.cur);
        }
        v
    }

    fn call(&mut self, env: &mut Vec<Bind>, j: usize, n: usize) -> cs::Statement {
        let sig = self.sigs[j].clone();
        let share = if sig.params.is_empty() { 0 } else { n / sig.params.len() };
        let mut entries = vec![];
        for (k, p) in sig.params.iter().enumerate() {
            if sig.rec && k == 0 {
                // the fuel parameter: decreasing for a recursive call, a small literal otherwise
                let t: cs::Term<cs::Prd> = if j == self.cur {
                    self.stats.rec_calls += 1;
                    cs::Op {
                        fst: Rc::new(self.var_term(FUEL, &T::I64)),
                        op: cs::BinOp::Sub,
                        snd: Rc::new(cs::Literal { lit: 1 }.into()),
                    }
                    .into()
                } else {
                    cs::Literal { lit: self.c.int_in(0, 5) }.into()
                };
                self.stats.nonvalue_args += 1;
                entries.push(cs::Producer(t));
                continue;
            }
            if p.prd {
                let t = if share == 0 { self.base_prd(env, &p.ty, 0) } else { self.prd(env, &p.ty, share) };
                if !matches!(t, cs::Term::XVar(_)) {
                    self.stats.nonvalue_args += 1;
                }
                entries.push(cs::Producer(t));
            } else {
                let t = if share == 0 { self.base_cns(env, &p.ty) } else { self.cns(env, &p.ty, share) };
                if !matches!(t, cs::Term::XVar(_)) {
                    self.stats.nonvalue_args += 1;
                }
                entries.push(cs::Consumer(t));
            }
        }
        self.stats.calls += 1;
        cs::Statement::Call(cs::Call { name: id(&sig.name), args: cs::Arguments { entries }, ty: cs::Ty::I64 })
    }

    fn stmt(&mut self, env: &mut Vec<Bind>, n: usize) -> cs::Statement {
        if n == 0 {
            return self.terminal(env);
        }
        let callable = self.callable();
        let wcall = if callable.is_empty() { 0 } else { 14 };
        let wprint = if self.cfg.allow_print { 14 } else { 0 };
        match self.c.weighted(&[6, wprint, 14, wcall, 52]) {
            0 => {
                let a = self.prd(env, &T::I64, n - 1);
                self.exit(a)
            }
            1 => {
                let arg = self.prd(env, &T::I64, (n - 1) / 3);
                if !matches!(arg, cs::Term::XVar(_)) {
                    self.stats.nonvalue_args += 1;
                }
                let next = self.stmt(env, (n - 1) - (n - 1) / 3);
                cs::Statement::PrintI64(PrintI64 { newline: self.c.boolean(), arg: Rc::new(arg), next: Rc::new(next) })
            }
            2 => {
                let sort = match self.c.choose(6) {
                    0 => cs::IfSort::Equal,
                    1 => cs::IfSort::NotEqual,
                    2 => cs::IfSort::Less,
                    3 => cs::IfSort::LessOrEqual,
                    4 => cs::IfSort::Greater,
                    _ => cs::IfSort::GreaterOrEqual,
                };
                let q = (n - 1) / 4;
                let fst = self.prd(env, &T::I64, q);
                let snd = if self.c.prob(170) { Some(Rc::new(self.prd(env, &T::I64, q))) } else { None };
                if !matches!(fst, cs::Term::XVar(_)) {
                    self.stats.nonvalue_args += 1;
                }
                let thenc = self.stmt(env, q);
                let elsec = self.stmt(env, (n - 1).saturating_sub(3 * q));
                cs::Statement::IfC(cs::IfC { sort, fst: Rc::new(fst), snd, thenc: Rc::new(thenc), elsec: Rc::new(elsec) })
            }
            3 => {
                let j = callable[self.c.choose(callable.len())];
                self.call(env, j, n - 1)
            }
            _ => {
                let tys = self.all_types();
                let ty = tys[self.c.choose(tys.len())].clone();
                let split = self.c.choose(n);
                let p = self.prd(env, &ty, split);
                let c = self.cns(env, &ty, n - 1 - split.min(n - 1));
                self.cut(p, c, &ty)
            }
        }
    }

    // ------------------------------------------------------------------ program
    pub fn program(&mut self) -> (cs::Prog, Vec<Vec<i64>>) {
        self.gen_types();
        // main's arguments first, so that they do not depend on how much of the buffer is left
        let nmain = self.c.choose(self.cfg.max_main_params + 1);
        let mut tuples = vec![];
        for _ in 0..2 {
            let t: Vec<i64> = (0..nmain).map(|_| if self.c.prob(40) { self.c.interesting_i64() } else { self.c.int_in(-4, 9) }).collect();
            tuples.push(t);
        }
        let ndefs = 1 + self.c.choose(self.cfg.max_defs + 1);
        let tys = self.all_types();
        let mut main_params = vec![];
        for i in 0..nmain {
            main_params.push(Bind { name: format!("arg{i}"), prd: true, ty: T::I64 });
        }
        self.sigs.push(Sig { name: "main".into(), params: main_params, rec: false });
        for d in 1..ndefs {
            let rec = self.c.prob(110);
            let mut params = vec![];
            if rec {
                params.push(Bind { name: FUEL.into(), prd: true, ty: T::I64 });
            }
            let np = self.c.weighted(&[10, 30, 30, 20, 10]);
            let mut names: Vec<String> = vec![];
            for _ in 0..np {
                let prd = !self.c.prob(80);
                let ty = tys[self.c.weighted(&[3u32, 1, 1, 1, 1, 1, 1][..tys.len().min(7)])].clone();
                let nm = self.binder(&[], prd, &names);
                names.push(nm.clone());
                params.push(Bind { name: nm, prd, ty });
            }
            self.sigs.push(Sig { name: format!("f{d}"), params, rec });
        }
        let mut defs = vec![];
        let per_def = self.cfg.size / ndefs + 2;
        for d in 0..ndefs {
            self.cur = d;
            let sig = self.sigs[d].clone();
            let mut env: Vec<Bind> = sig.params.clone();
            let body = if sig.rec {
                // if fuel <= 0 { base } else { step (may call itself with fuel - 1) }
                let saved = std::mem::replace(&mut self.sigs[d].rec, false);
                let base = self.stmt(&mut env, per_def / 3);
                self.sigs[d].rec = saved;
                let step = self.stmt(&mut env, per_def - per_def / 3);
                cs::Statement::IfC(cs::IfC {
                    sort: cs::IfSort::LessOrEqual,
                    fst: Rc::new(self.var_term(FUEL, &T::I64)),
                    snd: None,
                    thenc: Rc::new(base),
                    elsec: Rc::new(step),
                })
            } else {
                self.stmt(&mut env, per_def)
            };
            let context = cs::TypingContext {
                bindings: sig
                    .params
                    .iter()
                    .map(|b| cs::ContextBinding {
                        var: id(&b.name),
                        chi: if b.prd { cs::Chirality::Prd } else { cs::Chirality::Cns },
                        ty: self.ty(&b.ty),
                    })
                    .collect(),
            };
            defs.push(cs::Def { name: id(&sig.name), context, body });
        }
        let (data_types, codata_types) = self.decls();
        (cs::Prog { defs, data_types, codata_types, max_id: 0 }, tuples)
    }
}

pub fn gen_core(bytes: &[u8], cfg: &CoreCfg) -> (cs::Prog, Vec<Vec<i64>>, CoreGenStats) {
    let mut g = GenCore::new(bytes, cfg.clone());
    let (p, t) = g.program();
    (p, t, g.stats)
}

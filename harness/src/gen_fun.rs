//! Type-directed generator of well-typed Fun programs (own AST, see `fun_ast`).
//!
//! Everything is constructed, nothing is rejected: a term of any closed type can always be built
//! (variables, literals, base constructors, `new`, productive helper definitions for codata).

use crate::choice::Chooser;
use crate::fun_ast::*;
use std::collections::{HashMap, HashSet};

#[derive(Clone, Debug)]
pub struct GenCfg {
    /// size budget (AST nodes, roughly) per definition body
    pub size: usize,
    pub max_defs: usize,
    /// allow print/exit/label/goto and destructor calls in argument positions
    pub effects_in_args: bool,
    /// probability (/256) that a binder reuses a name already in scope
    pub reuse: u32,
    /// draw identifiers from the adversarial pool (names resembling generated ones)
    pub adversarial: bool,
    /// all binders of a definition pairwise distinct and distinct from the parameters
    pub unique_binders: bool,
    pub max_main_params: usize,
    /// allow constructors with many fields (multi-block objects) and wide environments
    pub wide: bool,
    /// allow covariable fields / destructor arguments
    pub cns_fields: bool,
    /// no print anywhere (RISC-V backend)
    pub no_print: bool,
}

impl Default for GenCfg {
    fn default() -> Self {
        GenCfg {
            size: 40,
            max_defs: 4,
            effects_in_args: true,
            reuse: 70,
            adversarial: false,
            unique_binders: false,
            max_main_params: 3,
            wide: true,
            cns_fields: true,
            no_print: false,
        }
    }
}

#[derive(Clone, Debug)]
struct Bind {
    name: String,
    cns: bool,
    ty: Ty,
}

#[derive(Clone, Debug)]
struct Sig {
    name: String,
    params: Vec<Param>,
    ret: Ty,
    pure_def: bool,
    fuel: bool,
}

#[derive(Default, Clone, Debug)]
pub struct GenStats {
    pub shadowing_binders: usize,
    /// binders reusing the name of an earlier binder of the same definition that is not in scope
    pub sibling_binders: usize,
    pub labels: usize,
    pub gotos: usize,
    pub news: usize,
    pub cases: usize,
    pub dtors: usize,
    pub calls: usize,
    pub big_ctor: usize,
    pub cns_args: usize,
}

pub struct Gen<'a> {
    pub c: Chooser<'a>,
    cfg: GenCfg,
    types: Vec<TypeDecl>,
    universe: Vec<Ty>,
    sigs: Vec<Sig>,
    helpers: HashMap<Ty, String>,
    helper_defs: Vec<Def>,
    used_in_def: HashSet<String>,
    /// binder names of the current definition in order of introduction (name, is covariable)
    used_order: Vec<(String, bool)>,
    cur: usize,
    taken_def_names: HashSet<String>,
    pub stats: GenStats,
    /// per-program mode: control operators (label, goto, exit) are several times as frequent
    control_heavy: bool,
}

const VAR_POOL: [&str; 24] = [
    "x", "y", "z", "n", "m", "a", "b", "c", "p", "q", "r", "s", "t", "u", "v", "w", "xs", "ys",
    "acc", "i", "j", "e", "d", "l",
];
const ADV_VAR_POOL: [&str; 20] = [
    "x0", "x1", "a0", "a1", "x2", "a2", "share_f_0", "lab1", "cleanup", "asm_main", "lift_main__5",
    "rax", "x_1", "a_1",
    // generated-looking names whose numeric suffix is the largest value of an integer type
    "x18446744073709551615", "a18446744073709551615", "x4294967295", "a4294967295", "x9223372036854775807", "a65535",
];
const COVAR_POOL: [&str; 8] = ["k", "ret", "out", "done", "esc", "brk", "kk", "halt"];
const DEF_POOL: [&str; 16] = [
    "f", "g", "h", "go", "loop", "aux", "fib", "sum", "step", "walk", "build", "fold", "twice",
    "pick", "run", "iter",
];
const ADV_DEF_POOL: [&str; 12] = [
    "share_main_0",
    "share_f_0",
    "lab1",
    "cleanup",
    "asm_main",
    "lift_main__5",
    "lift_main__9",
    "x0",
    "a0",
    "print_i64x",
    "main_",
    "share_main_1",
];
const TYPE_POOL: [&str; 10] = ["T", "U", "V", "W", "Box", "Rec", "Shape", "Color", "Expr", "Cell"];
const CODATA_POOL: [&str; 8] = ["Obj", "Gen", "Acc", "Lazy", "Proc", "Sink", "Mach", "Cnt"];
const ADV_TYPE_POOL: [&str; 5] = ["List_i64", "Cont", "T_1", "Pair_i64_i64", "X0"];

fn keyword(s: &str) -> bool {
    matches!(
        s,
        "label"
            | "goto"
            | "exit"
            | "if"
            | "else"
            | "print_i64"
            | "println_i64"
            | "let"
            | "case"
            | "new"
            | "def"
            | "data"
            | "codata"
            | "i64"
            | "cns"
            | "main"
    )
}

impl<'a> Gen<'a> {
    pub fn new(buf: &'a [u8], cfg: GenCfg) -> Self {
        Gen {
            c: Chooser::new(buf),
            cfg,
            types: vec![],
            universe: vec![],
            sigs: vec![],
            helpers: HashMap::new(),
            helper_defs: vec![],
            used_in_def: HashSet::new(),
            used_order: vec![],
            cur: 0,
            taken_def_names: HashSet::new(),
            stats: GenStats::default(),
            control_heavy: false,
        }
    }

    fn decl(&self, name: &str) -> &TypeDecl {
        self.types.iter().find(|t| t.name == name).expect("decl")
    }

    fn is_codata(&self, ty: &Ty) -> bool {
        match ty {
            Ty::I64 => false,
            Ty::Named(n, _) => self.decl(n).codata,
        }
    }

    // ---------------------------------------------------------------------------------
    // declarations
    // ---------------------------------------------------------------------------------

    fn classic_decls(&mut self) {
        // a library of classic shapes; each is included with some probability
        let tp = |s: &str| Ty::named(s, vec![]);
        let p = |n: &str, ty: Ty| Param { name: n.to_string(), cns: false, ty };
        if self.c.prob(170) {
            self.types.push(TypeDecl {
                name: "List".into(),
                params: vec!["A".into()],
                codata: false,
                xtors: vec![
                    Xtor { name: "Nil".into(), args: vec![], ret: None },
                    Xtor {
                        name: "Cons".into(),
                        args: vec![p("x", tp("A")), p("xs", Ty::named("List", vec![tp("A")]))],
                        ret: None,
                    },
                ],
            });
        }
        if self.c.prob(90) {
            self.types.push(TypeDecl {
                name: "Pair".into(),
                params: vec!["A".into(), "B".into()],
                codata: false,
                xtors: vec![Xtor {
                    name: "Tup".into(),
                    args: vec![p("a", tp("A")), p("b", tp("B"))],
                    ret: None,
                }],
            });
        }
        if self.c.prob(70) {
            self.types.push(TypeDecl {
                name: "Opt".into(),
                params: vec!["A".into()],
                codata: false,
                xtors: vec![
                    Xtor { name: "None".into(), args: vec![], ret: None },
                    Xtor { name: "Some".into(), args: vec![p("x", tp("A"))], ret: None },
                ],
            });
        }
        if self.c.prob(50) {
            self.types.push(TypeDecl {
                name: "Tree".into(),
                params: vec!["A".into()],
                codata: false,
                xtors: vec![
                    Xtor { name: "Leaf".into(), args: vec![], ret: None },
                    Xtor {
                        name: "Node".into(),
                        args: vec![
                            p("l", Ty::named("Tree", vec![tp("A")])),
                            p("v", tp("A")),
                            p("r", Ty::named("Tree", vec![tp("A")])),
                        ],
                        ret: None,
                    },
                ],
            });
        }
        if self.c.prob(150) {
            self.types.push(TypeDecl {
                name: "Fun".into(),
                params: vec!["A".into(), "B".into()],
                codata: true,
                xtors: vec![Xtor {
                    name: "apply".into(),
                    args: vec![p("x", tp("A"))],
                    ret: Some(tp("B")),
                }],
            });
        }
        let with_stream = self.c.prob(100);
        if with_stream || self.control_heavy {
            self.types.push(TypeDecl {
                name: "Stream".into(),
                params: vec!["A".into()],
                codata: true,
                xtors: vec![
                    Xtor { name: "head".into(), args: vec![], ret: Some(tp("A")) },
                    Xtor {
                        name: "tail".into(),
                        args: vec![],
                        ret: Some(Ty::named("Stream", vec![tp("A")])),
                    },
                ],
            });
        }
        if self.c.prob(60) {
            self.types.push(TypeDecl {
                name: "LPair".into(),
                params: vec!["A".into(), "B".into()],
                codata: true,
                xtors: vec![
                    Xtor { name: "fst".into(), args: vec![], ret: Some(tp("A")) },
                    Xtor { name: "snd".into(), args: vec![], ret: Some(tp("B")) },
                ],
            });
        }
    }

    fn fresh_upper(&mut self, pool: &[&str], taken: &mut HashSet<String>) -> String {
        let base = if self.cfg.adversarial && self.c.prob(90) {
            ADV_TYPE_POOL[self.c.choose(ADV_TYPE_POOL.len())]
        } else {
            pool[self.c.choose(pool.len())]
        };
        let mut name = base.to_string();
        let mut i = 0;
        while taken.contains(&name) || name == "_Cont" {
            i += 1;
            name = format!("{base}{i}");
        }
        taken.insert(name.clone());
        name
    }

    fn arg_type(&mut self, own: Option<(&str, &[String])>, params: &[String], allow_self: bool) -> Ty {
        // own = (name of the type being declared, its parameters)
        let n_earlier = self.types.len();
        let w_param = if params.is_empty() { 0 } else { 30 };
        let w_earlier = if n_earlier == 0 { 0 } else { 30 };
        let w_self = if allow_self && own.is_some() { 25 } else { 0 };
        match self.c.weighted(&[60, w_param, w_earlier, w_self]) {
            0 => Ty::I64,
            1 => Ty::named(&params[self.c.choose(params.len())], vec![]),
            2 => {
                let j = self.c.choose(n_earlier);
                let d = self.types[j].clone();
                let mut args = vec![];
                for _ in 0..d.params.len() {
                    let a = if !params.is_empty() && self.c.boolean() {
                        Ty::named(&params[self.c.choose(params.len())], vec![])
                    } else if self.c.prob(56) {
                        // a nested instance: the parameters of the declared type may occur only
                        // at depth two (`List[Pair[A, i64]]`)
                        let d2 = self.types[self.c.choose(n_earlier)].clone();
                        let inner: Vec<Ty> = (0..d2.params.len())
                            .map(|_| {
                                if !params.is_empty() && self.c.prob(150) {
                                    Ty::named(&params[self.c.choose(params.len())], vec![])
                                } else {
                                    Ty::I64
                                }
                            })
                            .collect();
                        Ty::Named(d2.name.clone(), inner)
                    } else {
                        Ty::I64
                    };
                    args.push(a);
                }
                Ty::Named(d.name.clone(), args)
            }
            _ => {
                let (n, ps) = own.unwrap();
                Ty::Named(n.to_string(), ps.iter().map(|p| Ty::named(p, vec![])).collect())
            }
        }
    }

    fn random_decls(&mut self) {
        let mut taken: HashSet<String> = self.types.iter().map(|t| t.name.clone()).collect();
        let mut xtaken: HashSet<String> = self
            .types
            .iter()
            .flat_map(|t| t.xtors.iter().map(|x| x.name.clone()))
            .collect();
        for p in ["A", "B"] {
            taken.insert(p.to_string());
        }
        let n_data = self.c.weighted(&[40, 50, 25, 10]);
        let n_codata = self.c.weighted(&[60, 45, 15]);
        let mut kinds = vec![];
        for _ in 0..n_data {
            kinds.push(false);
        }
        for _ in 0..n_codata {
            kinds.push(true);
        }
        for codata in kinds {
            let name = if codata {
                self.fresh_upper(&CODATA_POOL, &mut taken)
            } else {
                self.fresh_upper(&TYPE_POOL, &mut taken)
            };
            let nparams = self.c.weighted(&[70, 25, 8]);
            let params: Vec<String> = ["A", "B"][..nparams].iter().map(|s| s.to_string()).collect();
            // a codata type without destructors is accepted (its only value is `new { }`)
            let nx = if codata && self.c.prob(24) { 0 } else { 1 + self.c.weighted(&[30, 40, 20, 8, 4, 3]) };
            let mut xtors = vec![];
            for xi in 0..nx {
                let xname = loop {
                    let cand = if codata {
                        let pool = ["get", "run", "next", "peek", "at", "push", "call", "m", "obs", "it"];
                        pool[self.c.choose(pool.len())].to_string()
                    } else {
                        let pool = ["A", "B", "C", "D", "E", "Mk", "K", "Red", "Sq", "Lit", "Add", "Neg"];
                        pool[self.c.choose(pool.len())].to_string()
                    };
                    let mut cand2 = cand.clone();
                    let mut i = 0;
                    while xtaken.contains(&cand2) || keyword(&cand2) {
                        i += 1;
                        cand2 = format!("{cand}{i}");
                    }
                    break cand2;
                };
                xtaken.insert(xname.clone());
                let nargs = if self.cfg.wide && self.c.prob(26) {
                    4 + self.c.choose(5)
                } else {
                    self.c.weighted(&[35, 35, 20, 10])
                };
                let mut args = vec![];
                let mut anames = HashSet::new();
                for ai in 0..nargs {
                    let allow_self = codata || xi > 0;
                    let ty = self.arg_type(Some((&name, &params)), &params, allow_self);
                    let cns = self.cfg.cns_fields && (codata || xi > 0) && self.c.prob(10);
                    let mut an = format!("{}{}", if cns { "k" } else { "f" }, ai);
                    while anames.contains(&an) {
                        an.push('_');
                    }
                    anames.insert(an.clone());
                    // covariable fields only at simple types
                    let ty = if cns && !matches!(ty, Ty::I64) { Ty::I64 } else { ty };
                    args.push(Param { name: an, cns, ty });
                }
                let ret = if codata {
                    Some(self.arg_type(Some((&name, &params)), &params, true))
                } else {
                    None
                };
                xtors.push(Xtor { name: xname, args, ret });
            }
            self.types.push(TypeDecl { name, params, codata, xtors });
        }
    }

    fn closed_instance(&mut self, d: &TypeDecl, depth: usize) -> Ty {
        let mut args = vec![];
        for _ in 0..d.params.len() {
            let a = if depth < 1 && !self.universe.is_empty() && self.c.prob(60) {
                self.universe[self.c.choose(self.universe.len())].clone()
            } else {
                Ty::I64
            };
            args.push(a);
        }
        Ty::Named(d.name.clone(), args)
    }

    fn build_universe(&mut self) {
        let decls = self.types.clone();
        for d in &decls {
            let k = if d.params.is_empty() { 1 } else { 1 + self.c.weighted(&[60, 30]) };
            for _ in 0..k {
                let t = self.closed_instance(d, 0);
                if !self.universe.contains(&t) && self.universe.len() < 9 {
                    self.universe.push(t);
                }
            }
        }
    }

    fn pick_type(&mut self) -> Ty {
        if self.universe.is_empty() || !self.c.prob(130) {
            return Ty::I64;
        }
        self.universe[self.c.choose(self.universe.len())].clone()
    }

    // ---------------------------------------------------------------------------------
    // names
    // ---------------------------------------------------------------------------------

    fn binder(&mut self, env: &[Bind], avoid: &[String], cns: bool) -> String {
        let fuel_name = self.fuel_name();
        // reuse a name in scope (shadowing)
        if !self.cfg.unique_binders && !env.is_empty() && self.c.prob(self.cfg.reuse) {
            let b = &env[self.c.choose(env.len())];
            if !avoid.contains(&b.name) && Some(&b.name) != fuel_name.as_ref() {
                self.stats.shadowing_binders += 1;
                return b.name.clone();
            }
        }
        // reuse the name of an earlier binder of this definition whose scope has ended (sibling
        // scopes: no shadowing, so renaming of shadowing binders does not separate the two)
        if !self.cfg.unique_binders && !self.used_order.is_empty() && self.c.prob(self.cfg.reuse) {
            let cands: Vec<String> = self
                .used_order
                .iter()
                .rev()
                .filter(|(n, k)| *k == cns && !env.iter().any(|b| &b.name == n) && !avoid.contains(n) && Some(n) != fuel_name.as_ref())
                .map(|(n, _)| n.clone())
                .take(4)
                .collect();
            if !cands.is_empty() {
                self.stats.sibling_binders += 1;
                return cands[self.c.choose(cands.len())].clone();
            }
        }
        let base = if self.cfg.adversarial && self.c.prob(110) {
            ADV_VAR_POOL[self.c.choose(ADV_VAR_POOL.len())]
        } else if cns {
            COVAR_POOL[self.c.choose(COVAR_POOL.len())]
        } else {
            VAR_POOL[self.c.choose(VAR_POOL.len())]
        };
        let mut name = base.to_string();
        let mut i = 0;
        loop {
            let clash = avoid.contains(&name)
                || keyword(&name)
                || Some(&name) == fuel_name.as_ref()
                || (self.cfg.unique_binders && self.used_in_def.contains(&name));
            if !clash {
                break;
            }
            i += 1;
            name = format!("{base}{i}");
        }
        if env.iter().any(|b| b.name == name) {
            self.stats.shadowing_binders += 1;
        }
        self.used_in_def.insert(name.clone());
        if !self.used_order.iter().any(|(n, _)| n == &name) {
            self.used_order.push((name.clone(), cns));
        }
        name
    }

    /// an integer variable in scope or a literal near the ends of the 64-bit range
    fn boundary_atom(&mut self, env: &[Bind]) -> Tm {
        let vs = Self::vars_of(env, &Ty::I64, false);
        let fuel = self.fuel_name();
        let vs: Vec<String> = vs.into_iter().filter(|v| Some(v) != fuel.as_ref()).collect();
        if !vs.is_empty() && self.c.prob(130) {
            return Tm::Var(vs[self.c.choose(vs.len())].clone());
        }
        const B: [i64; 12] = [i64::MAX, i64::MIN, i64::MAX - 1, i64::MIN + 1, 1 << 62, -(1 << 62), (1 << 62) + 1, 3037000500, -3037000500, 1, -1, 2];
        Tm::Lit(B[self.c.choose(B.len())])
    }

    fn fuel_name(&self) -> Option<String> {
        if self.cur < self.sigs.len() && self.sigs[self.cur].fuel {
            Some(self.sigs[self.cur].params[0].name.clone())
        } else {
            None
        }
    }

    fn visible<'e>(env: &'e [Bind], name: &str) -> Option<&'e Bind> {
        env.iter().rev().find(|b| b.name == name)
    }

    fn vars_of(env: &[Bind], ty: &Ty, cns: bool) -> Vec<String> {
        let mut seen = HashSet::new();
        let mut out = vec![];
        for b in env.iter().rev() {
            if seen.insert(b.name.clone()) && b.cns == cns && &b.ty == ty {
                out.push(b.name.clone());
            }
        }
        out
    }

    // ---------------------------------------------------------------------------------
    // leaves
    // ---------------------------------------------------------------------------------

    fn lit(&mut self) -> Tm {
        let mut n = self.c.interesting_i64();
        if n == i64::MIN {
            n = i64::MIN + 1;
        }
        Tm::Lit(n)
    }

    fn helper_for(&mut self, ty: &Ty) -> String {
        if let Some(n) = self.helpers.get(ty) {
            return n.clone();
        }
        let mut i = self.helpers.len();
        let mut name = format!("mk{i}");
        while self.taken_def_names.contains(&name) {
            i += 1;
            name = format!("mk{i}");
        }
        self.taken_def_names.insert(name.clone());
        self.helpers.insert(ty.clone(), name.clone());
        let (dname, targs) = match ty {
            Ty::Named(n, a) => (n.clone(), a.clone()),
            Ty::I64 => unreachable!(),
        };
        let d = self.decl(&dname).clone();
        let mut clauses = vec![];
        for x in &d.xtors {
            let ret = x.ret.as_ref().unwrap().subst(&d.params, &targs);
            let binders: Vec<String> =
                x.args.iter().enumerate().map(|(i, _)| format!("h{i}")).collect();
            let body = self.leaf(&mut vec![], &ret, true);
            clauses.push(Clause { xtor: x.name.clone(), binders, body });
        }
        self.helper_defs.push(Def {
            name: name.clone(),
            params: vec![],
            ret: ty.clone(),
            body: Tm::New { clauses },
        });
        name
    }

    fn leaf(&mut self, env: &mut Vec<Bind>, ty: &Ty, _pure: bool) -> Tm {
        let vars = Self::vars_of(env, ty, false);
        if !vars.is_empty() && self.c.prob(200) {
            return Tm::Var(vars[self.c.choose(vars.len())].clone());
        }
        match ty {
            Ty::I64 => self.lit(),
            Ty::Named(n, targs) => {
                let d = self.decl(n).clone();
                if d.codata {
                    let h = self.helper_for(ty);
                    Tm::Call { name: h, args: vec![] }
                } else {
                    // base constructor: the first one (never recursive by construction)
                    let x = &d.xtors[0];
                    let mut args = vec![];
                    let mut ok = true;
                    for p in &x.args {
                        let pty = p.ty.subst(&d.params, targs);
                        if p.cns {
                            let cv = Self::vars_of(env, &pty, true);
                            if cv.is_empty() {
                                ok = false;
                                break;
                            }
                            args.push(Arg::Covar(cv[self.c.choose(cv.len())].clone()));
                        } else {
                            let lazy = self.is_codata(&pty);
                            let t = self.leaf(env, &pty, true);
                            args.push(Arg::Tm { t, lazy });
                        }
                    }
                    assert!(ok, "base constructors have no covariable fields");
                    Tm::Ctor { name: x.name.clone(), args }
                }
            }
        }
    }

    // ---------------------------------------------------------------------------------
    // terms
    // ---------------------------------------------------------------------------------

    fn split(&mut self, size: usize, n: usize) -> Vec<usize> {
        let mut out = vec![0; n];
        if n == 0 {
            return out;
        }
        let mut rest = size;
        for i in 0..n {
            if i == n - 1 {
                out[i] = rest;
            } else {
                let share = rest / (n - i);
                let k = self.c.int_in(0, (2 * share) as i64) as usize;
                let k = k.min(rest);
                out[i] = k;
                rest -= k;
            }
        }
        out
    }

    fn gen_args(
        &mut self,
        env: &mut Vec<Bind>,
        params: &[Param],
        tparams: &[String],
        targs: &[Ty],
        size: usize,
        pure: bool,
    ) -> Option<Vec<Arg>> {
        let sizes = self.split(size, params.len());
        let mut args = vec![];
        for (p, sz) in params.iter().zip(sizes) {
            let pty = p.ty.subst(tparams, targs);
            if p.cns {
                let cv = Self::vars_of(env, &pty, true);
                if cv.is_empty() {
                    return None;
                }
                self.stats.cns_args += 1;
                args.push(Arg::Covar(cv[self.c.choose(cv.len())].clone()));
            } else {
                let lazy = self.is_codata(&pty);
                let arg_pure = pure || !self.cfg.effects_in_args;
                let t = self.gen_tm(env, &pty, sz, arg_pure);
                args.push(Arg::Tm { t, lazy });
            }
        }
        Some(args)
    }

    fn has_cns_params(ps: &[Param]) -> bool {
        ps.iter().any(|p| p.cns)
    }

    /// definitions callable from the definition under construction that return `ty`
    fn callable(&self, ty: &Ty, pure: bool, allow_self: bool) -> Vec<usize> {
        let mut out = vec![];
        for (i, s) in self.sigs.iter().enumerate() {
            if &s.ret != ty || s.name == "main" {
                continue;
            }
            if pure && !s.pure_def {
                continue;
            }
            if i < self.cur || (i == self.cur && allow_self && s.fuel && !pure) {
                out.push(i);
            }
        }
        out
    }

    pub fn gen_tm(&mut self, env: &mut Vec<Bind>, ty: &Ty, size: usize, pure: bool) -> Tm {
        self.gen_tm_rec(env, ty, size, pure, false)
    }

    fn gen_tm_rec(&mut self, env: &mut Vec<Bind>, ty: &Ty, size: usize, pure: bool, in_rec: bool) -> Tm {
        if size == 0 {
            // `exit x` is as small as a leaf and has every type
            if self.control_heavy && !pure && self.c.prob(36) {
                let arg = self.leaf(env, &Ty::I64, pure);
                return Tm::Exit(Box::new(arg));
            }
            return self.leaf(env, ty, pure);
        }
        let is_int = matches!(ty, Ty::I64);
        let is_data = !is_int && !self.is_codata(ty);
        let is_cod = !is_int && !is_data;
        let eff = !pure;
        let no_print = self.cfg.no_print;
        let callable = self.callable(ty, pure, in_rec);
        let covars: Vec<Bind> = {
            let mut seen = HashSet::new();
            env.iter()
                .rev()
                .filter(|b| seen.insert(b.name.clone()) && b.cns)
                .cloned()
                .collect()
        };
        // destructors producing `ty`
        let mut dtor_opts: Vec<(Ty, usize)> = vec![];
        if eff {
            let mut cands: Vec<Ty> = self.universe.clone();
            for b in env.iter() {
                if !b.cns && !cands.contains(&b.ty) {
                    cands.push(b.ty.clone());
                }
            }
            for t in cands {
                if let Ty::Named(n, targs) = &t {
                    let d = self.decl(n);
                    if d.codata {
                        for (xi, x) in d.xtors.iter().enumerate() {
                            if &x.ret.as_ref().unwrap().subst(&d.params, targs) == ty {
                                dtor_opts.push((t.clone(), xi));
                            }
                        }
                    }
                }
            }
        }
        // data types to match on
        let mut case_opts: Vec<Ty> = vec![];
        {
            let mut cands: Vec<Ty> = self.universe.clone();
            for b in env.iter() {
                if !b.cns && !cands.contains(&b.ty) {
                    cands.push(b.ty.clone());
                }
            }
            for t in cands {
                if let Ty::Named(n, _) = &t {
                    if !self.decl(n).codata {
                        case_opts.push(t.clone());
                    }
                }
            }
        }
        let w = [
            6,                                                   // 0 leaf
            if is_int { 34 } else { 0 },                         // 1 op
            16,                                                  // 2 if
            if eff && !no_print { 10 } else { 0 },               // 3 print
            16,                                                  // 4 let
            if callable.is_empty() { 0 } else if self.cur + 1 == self.sigs.len() { 40 } else { 16 }, // 5 call
            if case_opts.is_empty() { 0 } else { 14 },           // 6 case
            if dtor_opts.is_empty() { 0 } else { 14 },           // 7 dtor
            if eff { if self.control_heavy { 14 } else { 5 } } else { 0 }, // 8 label
            if eff && !covars.is_empty() { if self.control_heavy { 16 } else { 4 } } else { 0 }, // 9 goto
            if eff { if self.control_heavy { 10 } else { 2 } } else { 0 }, // 10 exit
            2,                                                   // 11 paren
            if is_data { 30 } else { 0 },                        // 12 ctor
            if is_cod { 30 } else { 0 },                         // 13 new
            if eff && self.control_heavy { 7 } else { 0 },       // 14 exit-let
            if eff && self.control_heavy && self.selfish_dtor(ty).is_some() { 40 } else { 0 }, // 15 label around a chain
            if eff && self.cfg.effects_in_args && self.control_heavy && self.selfish_dtor(ty).is_none() && self.universe.iter().any(|t| self.selfish_dtor(t).is_some()) { 8 } else { 0 }, // 16 the same, let-bound
        ];
        match self.c.weighted(&w) {
            0 => self.leaf(env, ty, pure),
            1 => {
                let s = self.split(size - 1, 2);
                let op = [BinOp::Add, BinOp::Sub, BinOp::Mul, BinOp::Div, BinOp::Rem]
                    [self.c.weighted(&[40, 30, 25, 12, 12])];
                let a = self.gen_tm_rec(env, &Ty::I64, s[0], pure || !self.cfg.effects_in_args, in_rec);
                let b = if matches!(op, BinOp::Div | BinOp::Rem) && (pure || self.c.prob(200)) {
                    // a divisor that keeps the operation defined
                    let mut d = self.c.int_in(1, 9);
                    if self.c.prob(60) {
                        d = -d - 1;
                    }
                    Tm::Lit(d)
                } else {
                    self.gen_tm_rec(env, &Ty::I64, s[1], pure || !self.cfg.effects_in_args, in_rec)
                };
                Tm::Op(Box::new(a), op, Box::new(b))
            }
            2 => {
                let zero = self.c.prob(100);
                let s = self.split(size - 1, if zero { 3 } else { 4 });
                let sort = Cmp::ALL[self.c.choose(6)];
                let op_pure = pure || !self.cfg.effects_in_args;
                let fst = if self.c.prob(60) {
                    // arithmetic on boundary values directly under the comparison (wrap-around must
                    // survive every rewriting of conditionals)
                    let a = self.boundary_atom(env);
                    let b = self.boundary_atom(env);
                    let op = [BinOp::Sub, BinOp::Add, BinOp::Mul][self.c.choose(3)];
                    Tm::Op(Box::new(a), op, Box::new(b))
                } else {
                    self.gen_tm_rec(env, &Ty::I64, s[0] / 2, op_pure, in_rec)
                };
                let (snd, zero_left, k) = if zero {
                    (None, self.c.prob(90), 1)
                } else {
                    (Some(Box::new(self.gen_tm_rec(env, &Ty::I64, s[1] / 2, op_pure, in_rec))), false, 2)
                };
                let thn = self.gen_tm_rec(env, ty, s[k], pure, in_rec);
                let els = self.gen_tm_rec(env, ty, s[k + 1], pure, in_rec);
                Tm::If {
                    sort,
                    fst: Box::new(fst),
                    snd,
                    zero_left,
                    thn: Box::new(thn),
                    els: Box::new(els),
                }
            }
            3 => {
                let s = self.split(size - 1, 2);
                let arg = self.gen_tm_rec(env, &Ty::I64, s[0] / 2, !self.cfg.effects_in_args, in_rec);
                let next = self.gen_tm_rec(env, ty, s[1] + s[0] - s[0] / 2, pure, in_rec);
                Tm::Print { newline: self.c.boolean(), arg: Box::new(arg), next: Box::new(next) }
            }
            4 => {
                let mut s = self.split(size - 1, 2);
                // control-heavy programs: sometimes all the size goes to the bound term and the
                // body is a leaf (a variable, a literal or `exit x`)
                if self.control_heavy && !pure && self.c.prob(48) {
                    s = vec![size - 1, 0];
                }
                let vty = self.pick_type();
                let lazy = self.is_codata(&vty);
                // a data/int-typed bound term is a sequencing point (effects allowed);
                // a codata-typed one is a by-name binding
                let bound_pure = if lazy { pure || !self.cfg.effects_in_args } else { pure };
                let bound = self.gen_tm_rec(env, &vty, s[0], bound_pure, in_rec);
                let var = self.binder(env, &[], false);
                env.push(Bind { name: var.clone(), cns: false, ty: vty.clone() });
                let body = self.gen_tm_rec(env, ty, s[1], pure, in_rec);
                env.pop();
                Tm::Let { var, ty: vty, lazy, bound: Box::new(bound), body: Box::new(body) }
            }
            5 => {
                let i = callable[self.c.choose(callable.len())];
                let sig = self.sigs[i].clone();
                self.stats.calls += 1;
                let mut params = sig.params.clone();
                let mut pre = vec![];
                if sig.fuel {
                    // the fuel argument: `n - 1` for a self call, a small literal otherwise
                    let p0 = params.remove(0);
                    if i == self.cur {
                        pre.push(Arg::Tm {
                            t: Tm::Op(Box::new(Tm::Var(p0.name.clone())), BinOp::Sub, Box::new(Tm::Lit(1))),
                            lazy: false,
                        });
                    } else {
                        pre.push(Arg::Tm { t: Tm::Lit(self.c.int_in(0, 4)), lazy: false });
                    }
                }
                match self.gen_args(env, &params, &[], &[], size - 1, pure) {
                    Some(mut args) => {
                        pre.append(&mut args);
                        Tm::Call { name: sig.name.clone(), args: pre }
                    }
                    None => self.leaf(env, ty, pure),
                }
            }
            6 => {
                let sty = case_opts[self.c.choose(case_opts.len())].clone();
                let (n, targs) = match &sty {
                    Ty::Named(n, a) => (n.clone(), a.clone()),
                    _ => unreachable!(),
                };
                let d = self.decl(&n).clone();
                self.stats.cases += 1;
                let s = self.split(size - 1, d.xtors.len() + 1);
                let scrut = self.gen_tm_rec(env, &sty, s[0].min(size / 3), pure, in_rec);
                let mut clauses = vec![];
                for (xi, x) in d.xtors.iter().enumerate() {
                    let mut binders: Vec<String> = vec![];
                    let mark = env.len();
                    let mut new_binds = vec![];
                    for p in &x.args {
                        let b = self.binder(env, &binders, p.cns);
                        binders.push(b.clone());
                        new_binds.push(Bind { name: b, cns: p.cns, ty: p.ty.subst(&d.params, &targs) });
                    }
                    env.extend(new_binds);
                    let body = self.gen_tm_rec(env, ty, s[xi + 1], pure, in_rec);
                    env.truncate(mark);
                    clauses.push(Clause { xtor: x.name.clone(), binders, body });
                }
                // the checker sorts clauses into declaration order; present them shuffled sometimes
                if clauses.len() > 1 && self.c.prob(50) {
                    let k = self.c.choose(clauses.len());
                    clauses.rotate_left(k);
                }
                Tm::Case { scrut: Box::new(scrut), tyargs: targs, clauses }
            }
            7 => {
                let (sty, xi) = dtor_opts[self.c.choose(dtor_opts.len())].clone();
                let (n, targs) = match &sty {
                    Ty::Named(n, a) => (n.clone(), a.clone()),
                    _ => unreachable!(),
                };
                let d = self.decl(&n).clone();
                let x = d.xtors[xi].clone();
                self.stats.dtors += 1;
                let s = self.split(size - 1, 2);
                // the one unspecified evaluation order (DESIGN 3.1): either the scrutinee is a
                // variable / `new`, or all evaluated arguments are pure and total
                let vars = Self::vars_of(env, &sty, false);
                let simple_scrut = self.c.prob(150);
                let (scrut, args_pure) = if simple_scrut && !vars.is_empty() {
                    (Tm::Var(vars[self.c.choose(vars.len())].clone()), false)
                } else if simple_scrut {
                    (self.gen_new(env, &sty, s[0], pure, in_rec), false)
                } else {
                    // sometimes an explicit destructor *chain* `t.d'.d` (no parentheses in between),
                    // through an argument-free destructor that returns the scrutinee's own type
                    let selfish: Vec<usize> = d
                        .xtors
                        .iter()
                        .enumerate()
                        .filter(|(_, y)| y.args.is_empty() && y.ret.as_ref().map(|r| r.subst(&d.params, &targs)) == Some(sty.clone()))
                        .map(|(i, _)| i)
                        .collect();
                    if !selfish.is_empty() && self.c.prob(90) {
                        let y = d.xtors[selfish[self.c.choose(selfish.len())]].clone();
                        let inner = self.gen_tm_rec(env, &sty, s[0], pure, in_rec);
                        (Tm::Dtor { scrut: Box::new(inner), name: y.name.clone(), tyargs: targs.clone(), args: vec![] }, true)
                    } else {
                        (self.gen_tm_rec(env, &sty, s[0], pure, in_rec), true)
                    }
                };
                match self.gen_args(env, &x.args, &d.params, &targs, s[1], args_pure || pure) {
                    Some(args) => Tm::Dtor { scrut: Box::new(scrut), name: x.name.clone(), tyargs: targs, args },
                    None => self.leaf(env, ty, pure),
                }
            }
            8 => {
                self.stats.labels += 1;
                let name = self.label_name(env);
                env.push(Bind { name: name.clone(), cns: true, ty: ty.clone() });
                let body = self.gen_tm_rec(env, ty, size - 1, pure, in_rec);
                env.pop();
                Tm::Label { name, body: Box::new(body) }
            }
            9 => {
                self.stats.gotos += 1;
                let b = covars[self.c.choose(covars.len())].clone();
                let arg = self.gen_tm_rec(env, &b.ty, size - 1, pure, in_rec);
                Tm::Goto { name: b.name.clone(), arg: Box::new(arg) }
            }
            10 => {
                let arg = self.gen_tm_rec(env, &Ty::I64, (size - 1) / 2, pure, in_rec);
                Tm::Exit(Box::new(arg))
            }
            11 => Tm::Paren(Box::new(self.gen_tm_rec(env, ty, size - 1, pure, in_rec))),
            12 => {
                let (n, targs) = match ty {
                    Ty::Named(n, a) => (n.clone(), a.clone()),
                    _ => unreachable!(),
                };
                let d = self.decl(&n).clone();
                let xi = self.c.choose(d.xtors.len());
                let x = &d.xtors[xi];
                if x.args.len() > 3 {
                    self.stats.big_ctor += 1;
                }
                match self.gen_args(env, &x.args, &d.params, &targs, size - 1, pure) {
                    Some(args) => Tm::Ctor { name: x.name.clone(), args },
                    None => self.leaf(env, ty, pure),
                }
            }
            13 => self.gen_new(env, ty, size - 1, pure, in_rec),
            14 => {
                // `let z: i64 = if c { exit e } else { t }; exit y`: a control operator in tail
                // position of a bound term whose continuation is itself tiny
                let s = self.split(size - 1, 2);
                let c1 = self.leaf(env, &Ty::I64, pure);
                let thn = Tm::Exit(Box::new(self.leaf(env, &Ty::I64, pure)));
                let els = self.gen_tm_rec(env, &Ty::I64, s[0], pure, in_rec);
                let (thn, els) = if self.c.boolean() { (thn, els) } else { (els, thn) };
                let bound = Tm::If { sort: Cmp::ALL[self.c.choose(6)], fst: Box::new(c1), snd: None, zero_left: false, thn: Box::new(thn), els: Box::new(els) };
                let var = self.binder(env, &[], false);
                let body = Tm::Exit(Box::new(self.leaf(env, &Ty::I64, pure)));
                Tm::Let { var, ty: Ty::I64, lazy: false, bound: Box::new(bound), body: Box::new(body) }
            }
            16 => {
                // `let s: S = label k { chain }; t` for a codata type S with a self-returning destructor
                let cands: Vec<Ty> = self.universe.iter().filter(|t| self.selfish_dtor(t).is_some()).cloned().collect();
                let sty = cands[self.c.choose(cands.len())].clone();
                let s = self.split(size - 1, 2);
                let bound = self.label_chain(env, &sty, s[0].max(3), pure, in_rec);
                let var = self.binder(env, &[], false);
                env.push(Bind { name: var.clone(), cns: false, ty: sty.clone() });
                let body = self.gen_tm_rec(env, ty, s[1], pure, in_rec);
                env.pop();
                Tm::Let { var, ty: sty, lazy: true, bound: Box::new(bound), body: Box::new(body) }
            }
            _ => self.label_chain(env, ty, size, pure, in_rec),
        }
    }

    /// `label k { (if c { goto k (v) } else { t }).d.d }`: a destructor chain directly under a
    /// label whose innermost scrutinee can jump to that label
    fn label_chain(&mut self, env: &mut Vec<Bind>, ty: &Ty, size: usize, pure: bool, in_rec: bool) -> Tm {
        let (dname, targs) = self.selfish_dtor(ty).expect("checked by the caller");
        self.stats.labels += 1;
        self.stats.gotos += 1;
        let k = self.label_name(env);
        env.push(Bind { name: k.clone(), cns: true, ty: ty.clone() });
        let s = self.split(size.saturating_sub(1), 2);
        let c1 = self.leaf(env, &Ty::I64, pure);
        let jump = Tm::Goto { name: k.clone(), arg: Box::new(self.gen_tm_rec(env, ty, s[0].min(4), pure, in_rec)) };
        let other = self.gen_tm_rec(env, ty, s[1], pure, in_rec);
        let (thn, els) = if self.c.boolean() { (jump, other) } else { (other, jump) };
        env.pop();
        let inner = Tm::If { sort: Cmp::ALL[self.c.choose(6)], fst: Box::new(c1), snd: None, zero_left: false, thn: Box::new(thn), els: Box::new(els) };
        let mut chain = Tm::Paren(Box::new(inner));
        for _ in 0..(1 + self.c.choose(3)) {
            chain = Tm::Dtor { scrut: Box::new(chain), name: dname.clone(), tyargs: targs.clone(), args: vec![] };
        }
        Tm::Label { name: k, body: Box::new(chain) }
    }

    /// the name of a label: in control-heavy programs with adversarial identifiers often one of
    /// the first covariable names the translation generates itself, so that sibling labels share
    /// a name that fresh-name generation will want to hand out
    fn label_name(&mut self, env: &[Bind]) -> String {
        if self.cfg.adversarial && self.control_heavy && self.c.prob(100) {
            let n = ["a0", "a1", "a2"][self.c.choose(3)].to_string();
            if Some(&n) != self.fuel_name().as_ref() {
                return n;
            }
        }
        self.binder(env, &[], true)
    }

    /// an argument-free destructor of the codata type `ty` that returns `ty` itself
    fn selfish_dtor(&self, ty: &Ty) -> Option<(String, Vec<Ty>)> {
        let Ty::Named(n, targs) = ty else { return None };
        let d = self.types.iter().find(|d| &d.name == n)?;
        if !d.codata {
            return None;
        }
        d.xtors
            .iter()
            .find(|y| y.args.is_empty() && y.ret.as_ref().map(|r| r.subst(&d.params, targs)) == Some(ty.clone()))
            .map(|y| (y.name.clone(), targs.clone()))
    }

    fn gen_new(&mut self, env: &mut Vec<Bind>, ty: &Ty, size: usize, pure: bool, in_rec: bool) -> Tm {
        let (n, targs) = match ty {
            Ty::Named(n, a) => (n.clone(), a.clone()),
            _ => unreachable!(),
        };
        let d = self.decl(&n).clone();
        self.stats.news += 1;
        let s = self.split(size, d.xtors.len());
        let mut clauses = vec![];
        for (xi, x) in d.xtors.iter().enumerate() {
            let mut binders: Vec<String> = vec![];
            let mark = env.len();
            let mut new_binds = vec![];
            for p in &x.args {
                let b = self.binder(env, &binders, p.cns);
                binders.push(b.clone());
                new_binds.push(Bind { name: b, cns: p.cns, ty: p.ty.subst(&d.params, &targs) });
            }
            env.extend(new_binds);
            let rty = x.ret.as_ref().unwrap().subst(&d.params, &targs);
            let body = self.gen_tm_rec(env, &rty, s[xi], pure, in_rec);
            env.truncate(mark);
            clauses.push(Clause { xtor: x.name.clone(), binders, body });
        }
        if clauses.len() > 1 && self.c.prob(50) {
            let k = self.c.choose(clauses.len());
            clauses.rotate_left(k);
        }
        Tm::New { clauses }
    }

    // ---------------------------------------------------------------------------------
    // program
    // ---------------------------------------------------------------------------------

    fn def_name(&mut self) -> String {
        let base = if self.cfg.adversarial && self.c.prob(120) {
            ADV_DEF_POOL[self.c.choose(ADV_DEF_POOL.len())]
        } else {
            DEF_POOL[self.c.choose(DEF_POOL.len())]
        };
        let mut name = base.to_string();
        let mut i = 0;
        while self.taken_def_names.contains(&name) || keyword(&name) {
            i += 1;
            name = format!("{base}{i}");
        }
        self.taken_def_names.insert(name.clone());
        name
    }

    pub fn program(&mut self) -> Program {
        self.control_heavy = self.c.prob(64);
        self.classic_decls();
        self.random_decls();
        self.build_universe();
        // signatures
        let ndefs = self.c.choose(self.cfg.max_defs + 1);
        for _ in 0..ndefs {
            let name = self.def_name();
            let fuel = self.c.prob(110);
            let pure_def = !fuel && self.c.prob(70);
            let mut params = vec![];
            let mut pnames: Vec<String> = vec![];
            if fuel {
                let fname = ["n", "fuel", "cnt", "d"][self.c.choose(4)].to_string();
                pnames.push(fname.clone());
                params.push(Param { name: fname, cns: false, ty: Ty::I64 });
            }
            let np = if self.cfg.wide && self.c.prob(20) {
                4 + self.c.choose(4)
            } else {
                self.c.weighted(&[20, 40, 30, 15])
            };
            let ret = self.pick_type();
            for _ in 0..np {
                let cns = self.cfg.cns_fields && !pure_def && self.c.prob(14);
                let ty = if cns {
                    if self.c.boolean() { Ty::I64 } else { ret.clone() }
                } else {
                    self.pick_type()
                };
                let n = self.binder(&[], &pnames, cns);
                pnames.push(n.clone());
                params.push(Param { name: n, cns, ty });
            }
            self.sigs.push(Sig { name, params, ret, pure_def, fuel });
        }
        // main
        let nmain = self.c.choose(self.cfg.max_main_params + 1);
        let mut mparams = vec![];
        let mut pnames: Vec<String> = vec![];
        for _ in 0..nmain {
            let n = self.binder(&[], &pnames, false);
            pnames.push(n.clone());
            mparams.push(Param { name: n, cns: false, ty: Ty::I64 });
        }
        self.taken_def_names.insert("main".to_string());
        self.sigs.push(Sig {
            name: "main".into(),
            params: mparams,
            ret: Ty::I64,
            pure_def: false,
            fuel: false,
        });
        // bodies
        let mut defs = vec![];
        for i in 0..self.sigs.len() {
            self.cur = i;
            self.used_in_def.clear();
            self.used_order.clear();
            let sig = self.sigs[i].clone();
            for p in &sig.params {
                self.used_in_def.insert(p.name.clone());
            }
            let mut env: Vec<Bind> = sig
                .params
                .iter()
                .map(|p| Bind { name: p.name.clone(), cns: p.cns, ty: p.ty.clone() })
                .collect();
            let size = if sig.name == "main" { self.cfg.size } else { self.cfg.size * 2 / 3 };
            let body = if sig.fuel {
                let s = self.split(size, 2);
                let base = self.gen_tm_rec(&mut env, &sig.ret, s[0] / 2, false, false);
                let rec = self.gen_tm_rec(&mut env, &sig.ret, s[1] + s[0] - s[0] / 2, false, true);
                Tm::If {
                    sort: Cmp::Le,
                    fst: Box::new(Tm::Var(sig.params[0].name.clone())),
                    snd: None,
                    zero_left: false,
                    thn: Box::new(base),
                    els: Box::new(rec),
                }
            } else {
                self.gen_tm_rec(&mut env, &sig.ret, size, sig.pure_def, false)
            };
            defs.push(Def { name: sig.name.clone(), params: sig.params.clone(), ret: sig.ret.clone(), body });
        }
        let mut all_defs = defs;
        all_defs.append(&mut self.helper_defs);
        // declaration order: types first, then helpers/defs in a varied order
        let mut order: Vec<Decl> = (0..self.types.len()).map(Decl::Type).collect();
        let mut dorder: Vec<usize> = (0..all_defs.len()).collect();
        if dorder.len() > 1 && self.c.prob(90) {
            let k = self.c.choose(dorder.len());
            dorder.rotate_left(k);
        }
        order.extend(dorder.into_iter().map(Decl::Def));
        Program { types: self.types.clone(), defs: all_defs, order }
    }
}

pub fn gen_program(buf: &[u8], cfg: &GenCfg) -> (Program, GenStats) {
    let mut g = Gen::new(buf, cfg.clone());
    let p = g.program();
    (p, g.stats.clone())
}

/// program plus `k` argument tuples for main (decoded from the same buffer)
pub fn gen_program_with_args(buf: &[u8], cfg: &GenCfg, k: usize, wide: bool) -> (Program, Vec<Vec<i64>>, GenStats) {
    let mut g = Gen::new(buf, cfg.clone());
    // the argument values come first in the buffer so that they do not depend on how much of it
    // the program consumes
    let pre: Vec<Vec<i64>> = (0..k).map(|_| gen_main_args(&mut g.c, cfg.max_main_params, wide)).collect();
    let p = g.program();
    let n = p.def("main").map(|m| m.params.len()).unwrap_or(0);
    let tuples = pre.into_iter().map(|t| t[..n].to_vec()).collect();
    (p, tuples, g.stats.clone())
}

/// argument tuple for main, decoded from the tail of the same buffer
pub fn gen_main_args(c: &mut Chooser, n: usize, wide: bool) -> Vec<i64> {
    (0..n)
        .map(|_| if wide { c.interesting_i64() } else { c.int_in(-3, 12) })
        .collect()
}

//! Stateful generator of *linear* AxCut programs: it keeps the ordered environment exactly as
//! the backends see it and emits statements (with explicit `substitute`s) as operations on that
//! state, so every generated program is well-typed under the ordered linear discipline by
//! construction.

use crate::choice::Chooser;
use axcut::syntax as ax;
use axcut::syntax::statements as st;
use std::rc::Rc;

#[derive(Clone, Debug)]
pub struct LinCfg {
    pub max_env: usize,
    pub size: usize,
    pub allow_print: bool,
    pub max_main_params: usize,
    /// probability (/256) to keep everything alive across a statement (wide environments)
    pub keep: u32,
    /// fold all live integer variables into the result before exiting (makes clobbers observable)
    pub observe_all: u32,
    pub max_fields: usize,
    pub print_weight: u32,
    /// never let an environment grow beyond this many variables
    pub hard_cap: usize,
    /// probability (/256) that a definition keeps its environment at least `floor` variables wide
    /// (forced literals / lets that do not count against the size budget), so that everything
    /// else happens in spill positions
    pub wide: u32,
    pub floor: (usize, usize),
}

impl Default for LinCfg {
    fn default() -> Self {
        LinCfg {
            max_env: 24,
            size: 40,
            allow_print: true,
            max_main_params: 5,
            keep: 200,
            observe_all: 160,
            max_fields: 8,
            print_weight: 10,
            hard_cap: 100,
            wide: 0,
            floor: (0, 0),
        }
    }
}

#[derive(Default, Debug, Clone)]
pub struct LinStats {
    pub substitutes: usize,
    pub dups: usize,
    pub drops: usize,
    pub max_env: usize,
    pub lets: usize,
    pub creates: usize,
    pub switches: usize,
    pub invokes: usize,
    pub calls: usize,
    pub prints: usize,
    pub print_env_sizes: Vec<usize>,
    pub big_literals: usize,
}

type Env = Vec<ax::ContextBinding>;

struct DefSig {
    name: ax::Identifier,
    params: Env,
}

pub struct GenLin<'a> {
    c: Chooser<'a>,
    cfg: LinCfg,
    types: Vec<ax::TypeDeclaration>,
    next_id: usize,
    sigs: Vec<DefSig>,
    cur_def: usize,
    pub stats: LinStats,
    /// ids of integer variables known to be non-zero (safe divisors)
    nonzero: Vec<usize>,
    /// minimal environment width of the current definition (see LinCfg::wide)
    floor: usize,
    /// forced statements left for the current definition (bounds the widening)
    forced_left: usize,
}

fn ident(name: &str, id: usize) -> ax::Identifier {
    ax::Identifier { name: name.to_string(), id }
}

fn ext(var: ax::Identifier) -> ax::ContextBinding {
    ax::ContextBinding { var, chi: ax::Chirality::Ext, ty: ax::Ty::I64 }
}

fn ctx(b: Vec<ax::ContextBinding>) -> ax::TypingContext {
    ax::TypingContext { bindings: b }
}

impl<'a> GenLin<'a> {
    pub fn new(buf: &'a [u8], cfg: LinCfg) -> Self {
        GenLin { c: Chooser::new(buf), cfg, types: vec![], next_id: 0, sigs: vec![], cur_def: 0, stats: LinStats::default(), nonzero: vec![], floor: 0, forced_left: 0 }
    }

    fn fresh(&mut self, base: &str) -> ax::Identifier {
        self.next_id += 1;
        ident(base, self.next_id)
    }

    fn gen_types(&mut self) {
        let n = 1 + self.c.weighted(&[30, 40, 20, 10]);
        for t in 0..n {
            let nx = 1 + self.c.weighted(&[25, 35, 20, 10, 6, 4]);
            let mut xtors = vec![];
            for x in 0..nx {
                let nargs = if x == 0 {
                    self.c.weighted(&[30, 40, 20, 10])
                } else if self.c.prob(50) {
                    if self.cfg.max_fields > 8 && self.c.prob(110) {
                        // as many parameters as the widest register file: the value (closure or
                        // scrutinee) behind them sits in a spill position at an invoke
                        self.cfg.max_fields - self.c.choose(4)
                    } else {
                        4 + self.c.choose(self.cfg.max_fields.saturating_sub(3).max(1))
                    }
                } else {
                    self.c.weighted(&[20, 35, 30, 15])
                };
                let mut args = vec![];
                for a in 0..nargs {
                    // the first xtor of every type has only integer fields, so values of every
                    // type can always be built
                    let kind = if x == 0 { 0 } else { self.c.weighted(&[55, 30, 15]) };
                    let b = match kind {
                        0 => ext(ident(&format!("f{a}"), 0)),
                        1 => ax::ContextBinding {
                            var: ident(&format!("f{a}"), 0),
                            chi: ax::Chirality::Prd,
                            ty: ax::Ty::Decl(ident(&format!("T{}", self.c.choose(n)), 0)),
                        },
                        _ => ax::ContextBinding {
                            var: ident(&format!("f{a}"), 0),
                            chi: ax::Chirality::Cns,
                            ty: ax::Ty::Decl(ident(&format!("T{}", self.c.choose(n)), 0)),
                        },
                    };
                    args.push(b);
                }
                xtors.push(ax::XtorSig { name: ident(&format!("K{t}x{x}"), 0), args: ctx(args) });
            }
            self.types.push(ax::TypeDeclaration { name: ident(&format!("T{t}"), 0), xtors });
        }
    }

    fn decl(&self, ty: &ax::Ty) -> ax::TypeDeclaration {
        match ty {
            ax::Ty::Decl(n) => self.types.iter().find(|d| d.name == *n).expect("type").clone(),
            _ => unreachable!(),
        }
    }

    fn any_type(&mut self) -> ax::Ty {
        let i = self.c.choose(self.types.len());
        ax::Ty::Decl(self.types[i].name.clone())
    }

    fn lit_value(&mut self) -> i64 {
        let v = self.c.interesting_i64();
        if v > i32::MAX as i64 || v < i32::MIN as i64 {
            self.stats.big_literals += 1;
        }
        v
    }

    /// Build a substitution from `env` to `rest ++ tail`: `tail` lists old variables (by index
    /// into env) that must come last; `keep_rest` selects which other variables stay.  Returns the
    /// new environment and the rearrangement.
    fn substitution(&mut self, env: &Env, keep: &[usize], tail: &[usize]) -> (Env, Vec<(ax::ContextBinding, ax::Identifier)>) {
        let mut uses = vec![0usize; env.len()];
        for i in keep.iter().chain(tail.iter()) {
            uses[*i] += 1;
        }
        let mut used_once_done = vec![false; env.len()];
        let mut new_env = vec![];
        let mut rearrange = vec![];
        let all_fresh = self.c.prob(20);
        for i in keep.iter().chain(tail.iter()) {
            let old = &env[*i];
            // the first occurrence keeps the name (as the linearizer does), further copies get
            // fresh names
            let var = if !used_once_done[*i] && !all_fresh {
                used_once_done[*i] = true;
                old.var.clone()
            } else {
                self.fresh(&old.var.name)
            };
            let nb = ax::ContextBinding { var, chi: old.chi.clone(), ty: old.ty.clone() };
            if self.nonzero.contains(&old.var.id) && !self.nonzero.contains(&nb.var.id) {
                self.nonzero.push(nb.var.id);
            }
            new_env.push(nb.clone());
            rearrange.push((nb, old.var.clone()));
        }
        for (i, b) in env.iter().enumerate() {
            if b.chi != ax::Chirality::Ext {
                if uses[i] == 0 {
                    self.stats.drops += 1;
                } else if uses[i] > 1 {
                    self.stats.dups += 1;
                }
            }
        }
        self.stats.substitutes += 1;
        (new_env, rearrange)
    }

    /// choose which of the variables not needed in the tail stay alive
    fn choose_keep(&mut self, env: &Env, tail: &[usize], room: usize) -> Vec<usize> {
        let mut keep = vec![];
        let keep_all = self.c.prob(self.cfg.keep);
        for i in 0..env.len() {
            let in_tail = tail.contains(&i);
            // a variable in the tail may additionally stay in the rest (a copy)
            let stay = if in_tail { self.c.prob(40) } else { keep_all || self.c.prob(150) };
            if stay && keep.len() < room {
                keep.push(i);
            }
        }
        // permute sometimes
        if keep.len() > 1 && self.c.prob(60) {
            let k = self.c.choose(keep.len());
            keep.rotate_left(k);
        }
        if keep.len() > 1 && self.c.prob(40) {
            let i = self.c.choose(keep.len());
            let j = self.c.choose(keep.len());
            keep.swap(i, j);
        }
        keep
    }

    fn wrap_subst(rearrange: Vec<(ax::ContextBinding, ax::Identifier)>, next: ax::Statement) -> ax::Statement {
        ax::Statement::Substitute(st::Substitute { rearrange, next: Rc::new(next) })
    }

    fn vars_of(env: &Env, chi: &ax::Chirality, ty: &ax::Ty) -> Vec<usize> {
        env.iter().enumerate().filter(|(_, b)| b.chi == *chi && b.ty == *ty).map(|(i, _)| i).collect()
    }

    fn ext_vars(env: &Env) -> Vec<usize> {
        env.iter().enumerate().filter(|(_, b)| b.chi == ax::Chirality::Ext).map(|(i, _)| i).collect()
    }

    /// xtors of `d` whose object arguments are all available in `env`
    fn buildable(&self, d: &ax::TypeDeclaration, env: &Env) -> Vec<usize> {
        d.xtors
            .iter()
            .enumerate()
            .filter(|(_, x)| {
                x.args.bindings.iter().all(|a| match a.chi {
                    ax::Chirality::Ext => !Self::ext_vars(env).is_empty() || true,
                    _ => !Self::vars_of(env, &a.chi, &a.ty).is_empty(),
                })
            })
            .map(|(i, _)| i)
            .collect()
    }

    /// pick environment indices to pass for the signature `sig`; integer arguments that have no
    /// candidate are created by literals first (returned as statements to prepend)
    fn pick_args(&mut self, env: &mut Env, sig: &[ax::ContextBinding], pre: &mut Vec<(i64, ax::Identifier)>) -> Option<Vec<usize>> {
        let mut out = vec![];
        for a in sig {
            let cands = Self::vars_of(env, &a.chi, &a.ty);
            if cands.is_empty() || (a.chi == ax::Chirality::Ext && self.c.prob(40) && env.len() < self.cfg.max_env) {
                if a.chi != ax::Chirality::Ext {
                    return None;
                }
                let v = self.fresh("l");
                let n = self.lit_value();
                if n != 0 {
                    self.nonzero.push(v.id);
                }
                pre.push((n, v.clone()));
                env.push(ext(v));
                out.push(env.len() - 1);
            } else {
                out.push(cands[self.c.choose(cands.len())]);
            }
        }
        Some(out)
    }

    fn with_literals(pre: Vec<(i64, ax::Identifier)>, next: ax::Statement) -> ax::Statement {
        let mut s = next;
        for (n, v) in pre.into_iter().rev() {
            s = ax::Statement::Literal(st::Literal { lit: n, var: v, next: Rc::new(s), free_vars_next: None });
        }
        s
    }

    fn note_env(&mut self, env: &Env) {
        self.stats.max_env = self.stats.max_env.max(env.len());
    }

    // ---------------------------------------------------------------------------------
    // terminators
    // ---------------------------------------------------------------------------------

    fn gen_exit(&mut self, mut env: Env) -> ax::Statement {
        // optionally fold every live integer into the result so that a clobbered variable shows
        let mut pre: Vec<ax::Statement> = vec![];
        let _ = &mut pre;
        let exts = Self::ext_vars(&env);
        if exts.is_empty() {
            let v = self.fresh("r");
            let n = self.lit_value();
            return ax::Statement::Literal(st::Literal {
                lit: n,
                var: v.clone(),
                next: Rc::new(ax::Statement::Exit(st::Exit { var: v })),
                free_vars_next: None,
            });
        }
        if exts.len() >= 2 && self.c.prob(self.cfg.observe_all) && env.len() + exts.len() <= self.cfg.hard_cap.min(self.cfg.max_env + 12) {
            // acc = v0 ; acc = acc * 31 + v_i ...
            let mut ops: Vec<(ax::Identifier, ax::BinOp, ax::Identifier, ax::Identifier)> = vec![];
            let mut acc = env[exts[0]].var.clone();
            for i in &exts[1..] {
                let t = self.fresh("s");
                let op = if self.c.boolean() { ax::BinOp::Sum } else { ax::BinOp::Sub };
                ops.push((acc.clone(), op, env[*i].var.clone(), t.clone()));
                env.push(ext(t.clone()));
                acc = t;
            }
            let mut s = ax::Statement::Exit(st::Exit { var: acc });
            for (a, op, b, t) in ops.into_iter().rev() {
                s = ax::Statement::Op(st::Op { fst: a, op, snd: b, var: t, next: Rc::new(s), free_vars_next: None });
            }
            return s;
        }
        let i = exts[self.c.choose(exts.len())];
        ax::Statement::Exit(st::Exit { var: env[i].var.clone() })
    }

    /// a call of a *new* definition whose parameters are exactly the current environment: a bare
    /// `call` without any substitution (also directly inside a clause of a switch / closure)
    fn gen_bare_call(&mut self, env: &Env) -> Option<ax::Statement> {
        if self.sigs.len() >= 9 || env.len() > 10 {
            return None;
        }
        let params: Vec<ax::ContextBinding> =
            env.iter().map(|b| ax::ContextBinding { var: self.fresh("q"), chi: b.chi.clone(), ty: b.ty.clone() }).collect();
        let name = ident(&format!("g{}", self.sigs.len()), 0);
        self.sigs.push(DefSig { name: name.clone(), params });
        self.stats.calls += 1;
        Some(ax::Statement::Call(st::Call { label: name, args: ctx(vec![]) }))
    }

    fn gen_call(&mut self, mut env: Env) -> Option<ax::Statement> {
        if self.c.prob(70) {
            if let Some(s) = self.gen_bare_call(&env) {
                return Some(s);
            }
        }
        // only later definitions are called (no recursion)
        if self.cur_def + 1 >= self.sigs.len() {
            return None;
        }
        let j = self.cur_def + 1 + self.c.choose(self.sigs.len() - self.cur_def - 1);
        let params = self.sigs[j].params.clone();
        let label = self.sigs[j].name.clone();
        let mut pre = vec![];
        let picked = self.pick_args(&mut env, &params, &mut pre)?;
        let (new_env, rearrange) = self.substitution(&env, &[], &picked);
        debug_assert_eq!(new_env.len(), params.len());
        self.stats.calls += 1;
        let call = ax::Statement::Call(st::Call { label, args: ctx(vec![]) });
        Some(Self::with_literals(pre, Self::wrap_subst(rearrange, call)))
    }

    fn gen_invoke(&mut self, mut env: Env) -> Option<ax::Statement> {
        let closures: Vec<usize> =
            env.iter().enumerate().filter(|(_, b)| b.chi == ax::Chirality::Cns).map(|(i, _)| i).collect();
        if closures.is_empty() {
            return None;
        }
        let ci = closures[self.c.choose(closures.len())];
        let cb = env[ci].clone();
        let d = self.decl(&cb.ty);
        let xi = self.c.choose(d.xtors.len());
        let x = d.xtors[xi].clone();
        let mut pre = vec![];
        let mut picked = self.pick_args(&mut env, &x.args.bindings, &mut pre)?;
        picked.push(ci);
        let (_new_env, rearrange) = self.substitution(&env, &[], &picked);
        // the closure itself is the last target
        let var = rearrange.last().unwrap().0.var.clone();
        self.stats.invokes += 1;
        let inv = ax::Statement::Invoke(st::Invoke { var, tag: x.name.clone(), ty: cb.ty.clone(), args: ctx(vec![]) });
        Some(Self::with_literals(pre, Self::wrap_subst(rearrange, inv)))
    }

    fn gen_terminator(&mut self, env: Env) -> ax::Statement {
        match self.c.weighted(&[50, 25, 25]) {
            1 => {
                if let Some(s) = self.gen_call(env.clone()) {
                    return s;
                }
                self.gen_exit(env)
            }
            2 => {
                if let Some(s) = self.gen_invoke(env.clone()) {
                    return s;
                }
                self.gen_exit(env)
            }
            _ => self.gen_exit(env),
        }
    }

    // ---------------------------------------------------------------------------------
    // statements
    // ---------------------------------------------------------------------------------

    pub fn gen_stmt(&mut self, mut env: Env, size: usize) -> ax::Statement {
        self.note_env(&env);
        if size == 0 {
            return self.gen_terminator(env);
        }
        let room = env.len() < self.cfg.max_env;
        let forced = room && env.len() < self.floor && self.forced_left > 0;
        if forced {
            self.forced_left -= 1;
        }
        // forced statements are free
        let size = if forced { size + 1 } else { size };
        let exts = Self::ext_vars(&env);
        let objs: Vec<usize> = env.iter().enumerate().filter(|(_, b)| b.chi == ax::Chirality::Prd).map(|(i, _)| i).collect();
        let w = [
            if room { 16 } else { 0 },                                               // 0 literal
            if room && !exts.is_empty() { 22 } else { 0 },                           // 1 op
            if self.cfg.allow_print && !exts.is_empty() { self.cfg.print_weight } else { 0 }, // 2 print
            if room { 16 } else { 0 },                                               // 3 let
            if room { 10 } else { 0 },                                               // 4 create
            if objs.is_empty() { 0 } else { 14 },                                    // 5 switch
            10,                                                                      // 6 substitute
            if exts.is_empty() { 0 } else { 10 },                                    // 7 if
            3,                                                                       // 8 terminator early
            // 9 arithmetic, a print, then a zero test of the arithmetic result: nothing a print
            // call may clobber (flags, caller-saved registers) may carry the comparison
            if room && self.cfg.allow_print && exts.len() >= 2 { 5 } else { 0 },
        ];
        let choice = if forced { if self.c.prob(170) { 0 } else { 3 } } else { self.c.weighted(&w) };
        match choice {
            0 => {
                let v = self.fresh("x");
                let n = self.lit_value();
                if n != 0 {
                    self.nonzero.push(v.id);
                }
                env.push(ext(v.clone()));
                let next = self.gen_stmt(env, size - 1);
                ax::Statement::Literal(st::Literal { lit: n, var: v, next: Rc::new(next), free_vars_next: None })
            }
            1 => {
                let a = env[exts[self.c.choose(exts.len())]].var.clone();
                let op = match self.c.weighted(&[30, 25, 20, 12, 12]) {
                    0 => ax::BinOp::Sum,
                    1 => ax::BinOp::Sub,
                    2 => ax::BinOp::Prod,
                    3 => ax::BinOp::Div,
                    _ => ax::BinOp::Rem,
                };
                let b = if matches!(op, ax::BinOp::Div | ax::BinOp::Rem) {
                    let nz: Vec<usize> = exts.iter().copied().filter(|i| self.nonzero.contains(&env[*i].var.id)).collect();
                    if nz.is_empty() || self.c.prob(20) {
                        env[exts[self.c.choose(exts.len())]].var.clone()
                    } else {
                        env[nz[self.c.choose(nz.len())]].var.clone()
                    }
                } else {
                    env[exts[self.c.choose(exts.len())]].var.clone()
                };
                let v = self.fresh("y");
                env.push(ext(v.clone()));
                let next = self.gen_stmt(env, size - 1);
                ax::Statement::Op(st::Op { fst: a, op, snd: b, var: v, next: Rc::new(next), free_vars_next: None })
            }
            2 => {
                let v = env[exts[self.c.choose(exts.len())]].var.clone();
                self.stats.prints += 1;
                self.stats.print_env_sizes.push(env.len());
                let newline = self.c.boolean();
                let next = self.gen_stmt(env, size - 1);
                ax::Statement::PrintI64(st::PrintI64 { newline, var: v, next: Rc::new(next), free_vars_next: None })
            }
            3 => {
                let ty = self.any_type();
                let d = self.decl(&ty);
                let cands = self.buildable(&d, &env);
                let xi = if cands.is_empty() { 0 } else { cands[self.c.choose(cands.len())] };
                let x = d.xtors[xi].clone();
                let mut pre = vec![];
                let Some(picked) = self.pick_args(&mut env, &x.args.bindings, &mut pre) else {
                    return self.gen_stmt(env, size - 1);
                };
                let room = self.cfg.max_env.saturating_sub(picked.len());
                let keep = self.choose_keep(&env, &picked, room);
                let (mut new_env, rearrange) = self.substitution(&env, &keep, &picked);
                let n = picked.len();
                let args: Vec<ax::ContextBinding> = new_env.split_off(new_env.len() - n);
                let v = self.fresh("o");
                new_env.push(ax::ContextBinding { var: v.clone(), chi: ax::Chirality::Prd, ty: ty.clone() });
                self.stats.lets += 1;
                let next = self.gen_stmt(new_env, size - 1);
                let l = ax::Statement::Let(st::Let {
                    var: v,
                    ty,
                    tag: x.name.clone(),
                    args: ctx(args),
                    next: Rc::new(next),
                    free_vars_next: None,
                });
                Self::with_literals(pre, Self::wrap_subst(rearrange, l))
            }
            4 => {
                let ty = self.any_type();
                let d = self.decl(&ty);
                // captured environment: a random subset of the current variables
                let mut cap: Vec<usize> = vec![];
                for i in 0..env.len() {
                    if self.c.prob(70) && cap.len() < 6 {
                        cap.push(i);
                    }
                }
                let room = self.cfg.max_env.saturating_sub(cap.len());
                let keep = self.choose_keep(&env, &cap, room);
                let (mut new_env, rearrange) = self.substitution(&env, &keep, &cap);
                let captured: Vec<ax::ContextBinding> = new_env.split_off(new_env.len() - cap.len());
                let mut clauses = vec![];
                let per = size / (d.xtors.len() + 1);
                for x in &d.xtors {
                    // fresh binder names for the method's parameters
                    let params: Vec<ax::ContextBinding> = x
                        .args
                        .bindings
                        .iter()
                        .map(|a| ax::ContextBinding { var: self.fresh("p"), chi: a.chi.clone(), ty: a.ty.clone() })
                        .collect();
                    let mut menv = params.clone();
                    menv.extend(captured.iter().cloned());
                    let saved_nz = self.nonzero.clone();
                    let body = self.gen_stmt(menv, per.min(8));
                    self.nonzero = saved_nz;
                    clauses.push(st::Clause { xtor: x.name.clone(), context: ctx(params), body: Rc::new(body) });
                }
                let v = self.fresh("k");
                new_env.push(ax::ContextBinding { var: v.clone(), chi: ax::Chirality::Cns, ty: ty.clone() });
                self.stats.creates += 1;
                let next = self.gen_stmt(new_env, size - 1 - per.min(size - 1));
                let c = ax::Statement::Create(st::Create {
                    var: v,
                    ty,
                    context: Some(ctx(captured)),
                    clauses,
                    free_vars_clauses: None,
                    next: Rc::new(next),
                    free_vars_next: None,
                });
                Self::wrap_subst(rearrange, c)
            }
            5 => {
                let oi = objs[self.c.choose(objs.len())];
                let ob = env[oi].clone();
                let d = self.decl(&ob.ty);
                let max_fields = d.xtors.iter().map(|x| x.args.bindings.len()).max().unwrap_or(0);
                let room = self.cfg.max_env.saturating_sub(max_fields);
                let mut keep = self.choose_keep(&env, &[], room);
                // the scrutinee stays in the rest only as an extra copy
                if !self.c.prob(40) {
                    keep.retain(|i| *i != oi);
                }
                let (mut new_env, rearrange) = self.substitution(&env, &keep, &[oi]);
                let scrut = new_env.pop().unwrap();
                let mut clauses = vec![];
                let per = (size - 1) / d.xtors.len().max(1);
                for x in &d.xtors {
                    let fields: Vec<ax::ContextBinding> = x
                        .args
                        .bindings
                        .iter()
                        .map(|a| ax::ContextBinding { var: self.fresh("q"), chi: a.chi.clone(), ty: a.ty.clone() })
                        .collect();
                    let mut cenv = new_env.clone();
                    cenv.extend(fields.iter().cloned());
                    let saved_nz = self.nonzero.clone();
                    let body = self.gen_stmt(cenv, per);
                    self.nonzero = saved_nz;
                    clauses.push(st::Clause { xtor: x.name.clone(), context: ctx(fields), body: Rc::new(body) });
                }
                self.stats.switches += 1;
                let sw = ax::Statement::Switch(st::Switch { var: scrut.var, ty: ob.ty, clauses, free_vars_clauses: None });
                Self::wrap_subst(rearrange, sw)
            }
            6 => {
                // arbitrary rearrangement: duplicates, drops, permutation
                let mut targets: Vec<usize> = vec![];
                let n = env.len();
                let m = if n == 0 { 0 } else { self.c.choose((n + 3).min(self.cfg.max_env + 1)) };
                for _ in 0..m {
                    targets.push(self.c.choose(n));
                }
                let (new_env, rearrange) = self.substitution(&env, &targets, &[]);
                let next = self.gen_stmt(new_env, size - 1);
                Self::wrap_subst(rearrange, next)
            }
            7 => {
                let a = env[exts[self.c.choose(exts.len())]].var.clone();
                let zero = self.c.prob(100);
                let b = if zero { None } else { Some(env[exts[self.c.choose(exts.len())]].var.clone()) };
                use st::ifc::IfSort::*;
                let sort = [Equal, NotEqual, Less, LessOrEqual, Greater, GreaterOrEqual][self.c.choose(6)];
                let saved_nz = self.nonzero.clone();
                let t = self.gen_stmt(env.clone(), (size - 1) / 2);
                self.nonzero = saved_nz.clone();
                let e = self.gen_stmt(env, (size - 1) / 2);
                self.nonzero = saved_nz;
                ax::Statement::IfC(st::IfC { sort, fst: a, snd: b, thenc: Rc::new(t), elsec: Rc::new(e) })
            }
            9 => {
                let a = env[exts[self.c.choose(exts.len())]].var.clone();
                let b = env[exts[self.c.choose(exts.len())]].var.clone();
                let c = env[exts[self.c.choose(exts.len())]].var.clone();
                let op = if self.c.boolean() { ax::BinOp::Sub } else { ax::BinOp::Sum };
                let y = self.fresh("y");
                env.push(ext(y.clone()));
                use st::ifc::IfSort::*;
                let sort = [Equal, NotEqual, Less, GreaterOrEqual][self.c.choose(4)];
                self.stats.prints += 1;
                self.stats.print_env_sizes.push(env.len());
                let saved_nz = self.nonzero.clone();
                let t = self.gen_stmt(env.clone(), (size - 1) / 2);
                self.nonzero = saved_nz.clone();
                let e = self.gen_stmt(env, (size - 1) / 2);
                self.nonzero = saved_nz;
                let test = ax::Statement::IfC(st::IfC { sort, fst: y.clone(), snd: None, thenc: Rc::new(t), elsec: Rc::new(e) });
                let print = ax::Statement::PrintI64(st::PrintI64 { newline: self.c.boolean(), var: c, next: Rc::new(test), free_vars_next: None });
                ax::Statement::Op(st::Op { fst: a, op, snd: b, var: y, next: Rc::new(print), free_vars_next: None })
            }
            _ => self.gen_terminator(env),
        }
    }

    pub fn program(&mut self) -> ax::Prog {
        self.gen_types();
        // definitions: main first, the others take arbitrary parameters
        let ndefs = 1 + self.c.weighted(&[40, 35, 25]);
        let nmain = self.c.choose(self.cfg.max_main_params + 1);
        let mut sigs = vec![DefSig {
            name: ident("main", 0),
            params: (0..nmain).map(|_| ext(self.fresh("a"))).collect(),
        }];
        for i in 1..ndefs {
            let np = self.c.choose(self.cfg.max_env.min(10) + 1);
            let mut params = vec![];
            for _ in 0..np {
                let b = match self.c.weighted(&[60, 25, 15]) {
                    0 => ext(self.fresh("p")),
                    1 => ax::ContextBinding { var: self.fresh("p"), chi: ax::Chirality::Prd, ty: self.any_type() },
                    _ => ax::ContextBinding { var: self.fresh("p"), chi: ax::Chirality::Cns, ty: self.any_type() },
                };
                params.push(b);
            }
            sigs.push(DefSig { name: ident(&format!("f{i}"), 0), params });
        }
        self.sigs = sigs;
        let mut defs = vec![];
        // definitions may be added while bodies are generated (gen_bare_call)
        let mut i = 0;
        while i < self.sigs.len() {
            self.cur_def = i;
            self.nonzero.clear();
            self.floor = if self.cfg.wide > 0 && self.c.prob(self.cfg.wide) {
                self.cfg.floor.0 + self.c.choose(self.cfg.floor.1 - self.cfg.floor.0 + 1)
            } else {
                0
            };
            self.forced_left = 3 * self.floor + 8;
            let env = self.sigs[i].params.clone();
            let size = if i == 0 { self.cfg.size } else { self.cfg.size / 2 };
            let body = self.gen_stmt(env.clone(), size);
            defs.push(ax::Def { name: self.sigs[i].name.clone(), context: ctx(env), body });
            i += 1;
        }
        ax::Prog { defs, types: self.types.clone(), max_id: self.next_id }
    }
}

pub fn gen_linear(buf: &[u8], cfg: &LinCfg, k: usize) -> (ax::Prog, Vec<Vec<i64>>, LinStats) {
    let mut g = GenLin::new(buf, cfg.clone());
    let pre: Vec<Vec<i64>> = (0..k).map(|_| (0..cfg.max_main_params).map(|_| g.c.interesting_i64()).collect()).collect();
    let p = g.program();
    let n = p.defs[0].context.bindings.len();
    let tuples = pre.into_iter().map(|t: Vec<i64>| t[..n].to_vec()).collect();
    (p, tuples, g.stats.clone())
}

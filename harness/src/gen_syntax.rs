//! Grammar-directed generator of *parseable* (not necessarily well-typed) Fun programs: every
//! term form nested in every operand position the grammar allows, explicit parentheses,
//! negative literals, zero comparisons in all token forms, empty clause lists, type arguments,
//! covariable bindings.  Text is produced by `fun_ast`'s emitter (which adds the parentheses the
//! grammar needs) plus comment/blank-line noise at positions where the lexer cannot merge tokens.

use crate::choice::Chooser;
use crate::fun_ast::*;

const NAMES: [&str; 12] = ["x", "y", "z", "f", "g", "k", "a0", "x1", "acc", "n", "long_variable_name", "q_7"];
const UPPER: [&str; 8] = ["Nil", "Cons", "Tup", "A", "B", "Node", "Some", "VeryLongConstructorName"];
const LOWER_X: [&str; 6] = ["head", "tail", "apply", "fst", "get", "a_rather_long_destructor"];
const TYPES: [&str; 6] = ["List", "Pair", "Stream", "Fun", "T", "LongTypeNameForWrapping"];

pub struct SynCfg {
    pub size: usize,
    /// exclude the shapes of the known finding D9 (literal 0 adjacent to a comparison operator as a
    /// separate token): the emitter never writes `-0` and comparisons never get a bare literal 0
    /// operand in two-operand form
    pub avoid_zero_operand: bool,
}

pub struct SynGen<'a> {
    pub c: Chooser<'a>,
    cfg: SynCfg,
}

impl<'a> SynGen<'a> {
    pub fn new(buf: &'a [u8], cfg: SynCfg) -> Self {
        SynGen { c: Chooser::new(buf), cfg }
    }

    fn name(&mut self) -> String {
        NAMES[self.c.choose(NAMES.len())].to_string()
    }

    fn ty(&mut self, depth: usize) -> Ty {
        if depth == 0 || self.c.prob(150) {
            if self.c.boolean() { Ty::I64 } else { Ty::named(TYPES[self.c.choose(TYPES.len())], vec![]) }
        } else {
            let n = self.c.choose(3);
            let args = (0..n).map(|_| self.ty(depth - 1)).collect();
            Ty::named(TYPES[self.c.choose(TYPES.len())], args)
        }
    }

    fn lit(&mut self) -> Tm {
        let n = self.c.interesting_i64();
        Tm::Lit(if n == i64::MIN { i64::MIN + 1 } else { n })
    }

    fn args(&mut self, size: usize) -> Vec<Arg> {
        let n = self.c.weighted(&[30, 35, 20, 10, 5]);
        (0..n)
            .map(|_| {
                if self.c.prob(20) {
                    Arg::Covar(self.name())
                } else {
                    Arg::Tm { t: self.term(size / (n + 1)), lazy: false }
                }
            })
            .collect()
    }

    fn clauses(&mut self, size: usize, data: bool) -> Vec<Clause> {
        let n = self.c.weighted(&[10, 35, 35, 15, 5]);
        (0..n)
            .map(|_| {
                let nb = self.c.weighted(&[40, 30, 20, 10]);
                Clause {
                    xtor: if data { UPPER[self.c.choose(UPPER.len())].to_string() } else { LOWER_X[self.c.choose(LOWER_X.len())].to_string() },
                    binders: (0..nb).map(|_| self.name()).collect(),
                    body: self.term(size / (n + 1)),
                }
            })
            .collect()
    }

    fn tyargs(&mut self) -> Vec<Ty> {
        let n = self.c.weighted(&[60, 25, 15]);
        (0..n).map(|_| self.ty(1)).collect()
    }

    pub fn term(&mut self, size: usize) -> Tm {
        if size == 0 {
            return if self.c.boolean() { self.lit() } else { Tm::Var(self.name()) };
        }
        match self.c.weighted(&[6, 6, 12, 12, 8, 10, 8, 8, 8, 8, 6, 4, 4, 3, 6]) {
            0 => self.lit(),
            1 => Tm::Var(self.name()),
            2 => {
                let op = [BinOp::Add, BinOp::Sub, BinOp::Mul, BinOp::Div, BinOp::Rem][self.c.choose(5)];
                Tm::Op(Box::new(self.term(size / 2)), op, Box::new(self.term(size / 2)))
            }
            3 => {
                let sort = Cmp::ALL[self.c.choose(6)];
                let zero = self.c.prob(110);
                let fst = self.term(size / 4);
                let snd = if zero {
                    None
                } else {
                    let mut s = self.term(size / 4);
                    if self.cfg.avoid_zero_operand && matches!(s, Tm::Lit(0)) {
                        s = Tm::Lit(1);
                    }
                    Some(Box::new(s))
                };
                Tm::If {
                    sort,
                    fst: Box::new(fst),
                    snd,
                    zero_left: zero && self.c.boolean(),
                    thn: Box::new(self.term(size / 3)),
                    els: Box::new(self.term(size / 3)),
                }
            }
            4 => Tm::Print { newline: self.c.boolean(), arg: Box::new(self.term(size / 3)), next: Box::new(self.term(size / 2)) },
            5 => Tm::Let {
                var: self.name(),
                ty: self.ty(2),
                lazy: false,
                bound: Box::new(self.term(size / 2)),
                body: Box::new(self.term(size / 2)),
            },
            6 => Tm::Call { name: self.name(), args: self.args(size) },
            7 => Tm::Ctor { name: UPPER[self.c.choose(UPPER.len())].to_string(), args: self.args(size) },
            8 => Tm::Dtor {
                scrut: Box::new(self.term(size / 2)),
                name: LOWER_X[self.c.choose(LOWER_X.len())].to_string(),
                tyargs: self.tyargs(),
                args: self.args(size / 2),
            },
            9 => Tm::Case { scrut: Box::new(self.term(size / 3)), tyargs: self.tyargs(), clauses: self.clauses(size, true) },
            10 => Tm::New { clauses: self.clauses(size, false) },
            11 => Tm::Label { name: self.name(), body: Box::new(self.term(size - 1)) },
            12 => Tm::Goto { name: self.name(), arg: Box::new(self.term(size - 1)) },
            13 => Tm::Exit(Box::new(self.term(size - 1))),
            _ => Tm::Paren(Box::new(self.term(size - 1))),
        }
    }

    fn params(&mut self) -> Vec<Param> {
        let n = self.c.weighted(&[30, 35, 20, 10, 5]);
        (0..n).map(|_| Param { name: self.name(), cns: self.c.prob(40), ty: self.ty(2) }).collect()
    }

    pub fn program(&mut self) -> Program {
        let mut p = Program::default();
        let nd = 1 + self.c.choose(4);
        for _ in 0..nd {
            match self.c.weighted(&[50, 25, 25]) {
                0 => {
                    let d = Def { name: self.name(), params: self.params(), ret: self.ty(2), body: self.term(self.cfg.size) };
                    p.defs.push(d);
                    p.order.push(Decl::Def(p.defs.len() - 1));
                }
                k => {
                    let codata = k == 2;
                    let nx = self.c.weighted(&[10, 35, 35, 20]);
                    let nparams = self.c.weighted(&[50, 30, 20]);
                    let t = TypeDecl {
                        name: TYPES[self.c.choose(TYPES.len())].to_string(),
                        params: ["A", "B"][..nparams].iter().map(|s| s.to_string()).collect(),
                        codata,
                        xtors: (0..nx)
                            .map(|_| Xtor {
                                name: if codata { LOWER_X[self.c.choose(LOWER_X.len())].to_string() } else { UPPER[self.c.choose(UPPER.len())].to_string() },
                                args: self.params(),
                                ret: if codata { Some(self.ty(2)) } else { None },
                            })
                            .collect(),
                    };
                    p.types.push(t);
                    p.order.push(Decl::Type(p.types.len() - 1));
                }
            }
        }
        p
    }
}

/// add comment / blank-line noise after `;`, `{`, `,` at line ends (never inside a token pair the
/// lexer could merge)
pub fn add_noise(text: &str, c: &mut Chooser) -> String {
    let mut out = String::with_capacity(text.len() + 64);
    for line in text.lines() {
        out.push_str(line);
        let t = line.trim_end();
        if (t.ends_with(';') || t.ends_with('{') || t.ends_with(',')) && c.prob(40) {
            match c.choose(3) {
                0 => out.push_str(" //note"),
                1 => out.push_str("\n"),
                _ => out.push_str("   "),
            }
        }
        out.push('\n');
    }
    out
}

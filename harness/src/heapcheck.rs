//! Heap-state classifier and exact reference-count audit at statement-boundary markers
//! (DESIGN.md 3.5), written from the layout in `axcut2backend/src/memory.rs` and the backends'
//! `memory.rs`: 64-byte blocks, slot 0 = reference count minus one (in use) or next pointer (on a
//! list), field i = (pointer-or-0 at byte 16+16i, integer/tag/code address at 24+16i).

use crate::emu_common::*;
use std::collections::{HashMap, HashSet};

pub const BLOCK: u64 = 64;
const FIELDS: u64 = 3;

#[derive(Default, Debug, Clone)]
pub struct AuditStats {
    pub audits: u64,
    pub peak_reachable: u64,
    pub max_frontier_blocks: u64,
    pub saw_count_gt0: bool,
    pub saw_deferred: bool,
    pub saw_waiting: bool,
    pub saw_reusable_gt1: bool,
    pub saw_chain: bool,
    pub max_reachable_when_bumped: u64,
}

fn block_ok(mem: &Mem, a: u64, frontier: u64) -> bool {
    a >= HEAP_BASE && (a - HEAP_BASE) % BLOCK == 0 && mem.in_heap(a) && a < frontier
}

fn ptr_field(mem: &Mem, b: u64, i: u64) -> Result<u64, String> {
    match mem.heap_word(b + 16 + 16 * i) {
        Some(Word::Def(v)) => Ok(v),
        Some(Word::Undef) => Err(format!("block {b:#x}: pointer slot of field {i} is undefined")),
        None => Err(format!("block {b:#x}: outside the heap")),
    }
}

fn slot0(mem: &Mem, b: u64) -> Result<u64, String> {
    match mem.heap_word(b) {
        Some(Word::Def(v)) => Ok(v),
        Some(Word::Undef) => Err(format!("block {b:#x}: slot 0 is undefined")),
        None => Err(format!("block {b:#x}: outside the heap")),
    }
}

pub fn audit(view: &dyn View, marker: &Marker, stats: &mut AuditStats) -> Result<(), String> {
    let mem = view.mem();
    stats.audits += 1;
    let at = |e: String| format!("{e} [at {}]", marker.text);
    // ---- deferred list and frontier ----
    let f = view.free_reg().def().ok_or_else(|| at("free register undefined".into()))?;
    let mut deferred: Vec<u64> = vec![];
    let mut seen: HashSet<u64> = HashSet::new();
    let mut cur = f;
    let frontier;
    loop {
        if cur < HEAP_BASE || (cur - HEAP_BASE) % BLOCK != 0 || !mem.in_heap(cur) {
            return Err(at(format!("deferred list: {cur:#x} is not a block")));
        }
        if !seen.insert(cur) {
            return Err(at(format!("deferred list: cycle at {cur:#x}")));
        }
        let next = slot0(mem, cur).map_err(&at)?;
        if next == 0 {
            frontier = cur;
            break;
        }
        deferred.push(cur);
        cur = next;
    }
    for d in &deferred {
        if *d >= frontier {
            return Err(at(format!("deferred block {d:#x} lies above the frontier {frontier:#x}")));
        }
    }
    if mem.heap_high_water > frontier - HEAP_BASE {
        return Err(at(format!(
            "memory above the allocation frontier {frontier:#x} was written (high water {:#x})",
            HEAP_BASE + mem.heap_high_water
        )));
    }
    // ---- reusable list ----
    let h = view.heap_reg().def().ok_or_else(|| at("heap register undefined".into()))?;
    let mut reusable: Vec<u64> = vec![];
    let mut cur = h;
    loop {
        if !block_ok(mem, cur, frontier) {
            return Err(at(format!("reusable list: {cur:#x} is not a block below the frontier")));
        }
        if !seen.insert(cur) {
            return Err(at(format!("reusable list: block {cur:#x} is on a free list twice")));
        }
        reusable.push(cur);
        let next = slot0(mem, cur).map_err(&at)?;
        if next == 0 {
            break;
        }
        cur = next;
    }
    let on_list: HashSet<u64> = seen;
    // ---- reachability from the live variables ----
    let mut incoming: HashMap<u64, u64> = HashMap::new();
    let mut reachable: HashSet<u64> = HashSet::new();
    let mut work: Vec<u64> = vec![];
    for (pos, is_obj) in marker.kinds.iter().enumerate() {
        if !*is_obj {
            continue;
        }
        let w = view.var_fst(pos).map_err(|e| at(format!("{e}")))?;
        let p = w.def().ok_or_else(|| at(format!("object variable at position {pos} has an undefined pointer")))?;
        if p == 0 {
            continue;
        }
        if !block_ok(mem, p, frontier) {
            return Err(at(format!("variable at position {pos} points to {p:#x}, not a block below the frontier")));
        }
        *incoming.entry(p).or_insert(0) += 1;
        if reachable.insert(p) {
            work.push(p);
        }
    }
    let mut chain = false;
    let mut scan = |work: &mut Vec<u64>, set: &mut HashSet<u64>, incoming: &mut HashMap<u64, u64>| -> Result<(), String> {
        while let Some(b) = work.pop() {
            if on_list.contains(&b) {
                return Err(format!("block {b:#x} is referenced but is on a free list (use after release)"));
            }
            for i in 0..FIELDS {
                let p = ptr_field(mem, b, i)?;
                if p == 0 {
                    continue;
                }
                if !block_ok(mem, p, frontier) {
                    return Err(format!("block {b:#x} field {i} points to {p:#x}, not a block below the frontier"));
                }
                *incoming.entry(p).or_insert(0) += 1;
                if set.insert(p) {
                    work.push(p);
                }
            }
        }
        Ok(())
    };
    scan(&mut work, &mut reachable, &mut incoming).map_err(&at)?;
    // ---- blocks waiting beneath deferred blocks ----
    let mut waiting: HashSet<u64> = HashSet::new();
    let mut all: HashSet<u64> = reachable.clone();
    for d in &deferred {
        for i in 0..FIELDS {
            let p = ptr_field(mem, *d, i).map_err(&at)?;
            if p == 0 {
                continue;
            }
            if !block_ok(mem, p, frontier) {
                return Err(at(format!("deferred block {d:#x} field {i} points to {p:#x}, not a block")));
            }
            *incoming.entry(p).or_insert(0) += 1;
            if all.insert(p) {
                waiting.insert(p);
                work.push(p);
            }
        }
    }
    {
        let mut set = all.clone();
        let before: HashSet<u64> = set.clone();
        scan(&mut work, &mut set, &mut incoming).map_err(&at)?;
        for b in set.difference(&before) {
            waiting.insert(*b);
        }
        all = set;
    }
    // ---- every block below the frontier is in exactly one state ----
    let nblocks = (frontier - HEAP_BASE) / BLOCK;
    for k in 0..nblocks {
        let b = HEAP_BASE + k * BLOCK;
        let in_use = all.contains(&b);
        let listed = on_list.contains(&b);
        if in_use && listed {
            return Err(at(format!("block {b:#x} is both referenced and on a free list")));
        }
        if !in_use && !listed {
            return Err(at(format!("block {b:#x} is lost: neither reachable nor on a free list")));
        }
    }
    // ---- exact counts ----
    for b in &all {
        let stored = slot0(mem, *b).map_err(&at)?;
        let inc = *incoming.get(b).unwrap_or(&0);
        if inc == 0 || stored != inc - 1 {
            return Err(at(format!(
                "block {b:#x}: stored count {stored} but {inc} references (expected {})",
                inc as i64 - 1
            )));
        }
        if stored > 0 {
            stats.saw_count_gt0 = true;
        }
    }
    // link blocks: a block whose field 2 points to a block with exactly that one reference may be
    // a chain; we only record that multi-block objects occurred when an object root has a
    // non-zero pointer in field 2 whose target is not a root itself
    for b in &reachable {
        if let Ok(p) = ptr_field(mem, *b, 2) {
            if p != 0 && incoming.get(&p) == Some(&1) && ptr_field(mem, *b, 0).unwrap_or(0) == 0 {
                chain = true;
            }
        }
    }
    stats.saw_chain |= chain;
    stats.saw_deferred |= !deferred.is_empty();
    stats.saw_waiting |= !waiting.is_empty();
    stats.saw_reusable_gt1 |= reusable.len() > 1;
    stats.peak_reachable = stats.peak_reachable.max(reachable.len() as u64);
    stats.max_frontier_blocks = stats.max_frontier_blocks.max(nblocks);
    Ok(())
}

/// C10, oracle 1: the frontier is at most a small constant above the peak number of reachable
/// blocks.  Fresh memory is only taken when both lists are empty; at that moment every block
/// below the frontier is reachable, part of the object under construction or the block just
/// acquired, and the object under construction is reachable at the next marker.  Hence
/// frontier_blocks <= peak_reachable + 2 (acquired block + one block of slack for the object
/// under construction at a bump inside a multi-block store).
pub fn footprint_ok(stats: &AuditStats) -> Result<(), String> {
    let bound = stats.peak_reachable + 3;
    if stats.max_frontier_blocks > bound {
        return Err(format!(
            "allocation frontier reached {} blocks but at most {} blocks were ever reachable at a statement boundary",
            stats.max_frontier_blocks, stats.peak_reachable
        ));
    }
    Ok(())
}

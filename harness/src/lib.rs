//! Library part of the verification harness (used by the `sccv` binary and by the libFuzzer
//! targets under /verif/fuzz).

pub mod checks;
pub mod asmcheck;
pub mod choice;
pub mod emu_common;
pub mod families;
pub mod emu_a64;
pub mod emu_rv;
pub mod emu_x86;
pub mod fun_ast;
pub mod fuzzrun;
pub mod gen_axcut;
pub mod gen_core;
pub mod gen_fun;
pub mod gen_lin;
pub mod gen_syntax;
pub mod heapcheck;
pub mod mach_axcut;
pub mod mach_core;
pub mod mutate_ty;
pub mod tc_axcut;
pub mod tc_core;
pub mod native;
pub mod pipeline;
pub mod ref_fun;
pub mod runner;
pub mod shrink_ast;

use std::sync::OnceLock;

static FUZZ_CTX: OnceLock<runner::Ctx> = OnceLock::new();

fn fuzz_ctx() -> &'static runner::Ctx {
    FUZZ_CTX.get_or_init(|| {
        let root = std::env::var("VERIF_ROOT").map(std::path::PathBuf::from).unwrap_or_else(|_| std::path::PathBuf::from("/verif"));
        let scratch = root.join(".scratch").join(format!("fuzz{}", std::process::id()));
        let _ = std::fs::create_dir_all(&scratch);
        let _ = std::env::set_current_dir(&scratch);
        pipeline::install_panic_hook();
        let tier = if std::env::var("SCCV_FUZZ_TIER").as_deref() == Ok("thorough") { runner::Tier::Thorough } else { runner::Tier::Quick };
        runner::Ctx { id: "fuzz".into(), tier, seed: 0, root: root.clone(), scratch, known: runner::load_known(&root), verbose: false }
    })
}

/// One execution of a semantic fuzz target: `data` is the choice buffer of a generator, `mode`
/// selects generator and oracle.  Returns the failure summary if the oracle fails.
pub fn fuzz_entry(mode: &str, data: &[u8]) -> Option<String> {
    use checks::backend::{decode_lin, run_core_lin_case, run_lin_case};
    use checks::corecase::{self, Mode};
    use pipeline::Arch;
    let ctx = fuzz_ctx();
    let r = match mode {
        "focus" => corecase::run(ctx, Mode::Focus, data),
        "shrink" => corecase::run(ctx, Mode::Shrink, data),
        "stages" => corecase::run(ctx, Mode::Stages, data),
        "linearize" => checks::c05::run_from_core(ctx, data),
        "nonlinear" => checks::c05::run_direct(ctx, data),
        m if m.starts_with("lin-") || m.starts_with("alin-") || m.starts_with("core-") || m.starts_with("acore-") => {
            // a leading `a` switches the heap auditor on (C09); without it only behaviour is compared
            let audit = m.starts_with('a');
            let (m, owner) = m.split_once('@').unwrap_or((m, "base"));
            let arch = match m.rsplit('-').next() {
                Some("x86") => Arch::X86,
                Some("a64") => Arch::A64,
                _ => Arch::Rv,
            };
            if m.contains("lin-") {
                run_lin_case(ctx, arch, &decode_lin(&checks::c09::lin_cfg_by_id(owner, ctx, arch), data), audit).0
            } else {
                run_core_lin_case(ctx, arch, data, audit).0
            }
        }
        _ => return Some(format!("unknown fuzz mode {mode}")),
    };
    match r {
        runner::CaseResult::Fail(f) => Some(f.summary),
        _ => None,
    }
}

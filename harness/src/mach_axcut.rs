//! Abstract machine for AxCut in two modes.
//!
//! * named: the environment is keyed by variable id, no linearity (output of core2axcut);
//! * positional: the environment is an ordered list exactly as the backends see it; every
//!   statement first asserts that the list has the shape the backend reads off positions
//!   (DESIGN.md C05), object variables are consumed by let/switch/invoke/call and duplicated or
//!   dropped only by `substitute`.
//!
//! Constructor/method selection in positional mode follows the jump tables: the clause taken is
//! the one at the *position* of the tag in the type declaration.

use crate::fun_ast::{BinOp, Cmp};
use crate::ref_fun::Outcome;
use axcut::syntax as ax;
use axcut::syntax::statements as st;
use std::collections::HashMap;
use std::rc::Rc;

#[derive(Clone)]
pub enum Val {
    Int(i64),
    Obj { tag: Rc<str>, fields: Rc<Vec<Val>> },
    /// named mode: the whole environment is captured
    ClosureN { clauses: Rc<Vec<st::Clause>>, env: NEnv },
    /// positional mode: the captured environment in order
    ClosureP { clauses: Rc<Vec<st::Clause>>, env: Rc<Vec<(ax::ContextBinding, Val)>> },
}

pub struct NEnvNode {
    id: usize,
    val: Val,
    next: NEnv,
}
pub type NEnv = Option<Rc<NEnvNode>>;

fn nbind(env: &NEnv, id: usize, val: Val) -> NEnv {
    Some(Rc::new(NEnvNode { id, val, next: env.clone() }))
}

fn nlookup(env: &NEnv, id: usize) -> Option<Val> {
    let mut cur = env;
    while let Some(n) = cur {
        if n.id == id {
            return Some(n.val.clone());
        }
        cur = &n.next;
    }
    None
}

fn xname(i: &ax::Identifier) -> Rc<str> {
    if i.id == 0 { Rc::from(i.name.as_str()) } else { Rc::from(format!("{}_{}", i.name, i.id).as_str()) }
}

pub fn binop(op: &ax::BinOp) -> BinOp {
    match op {
        ax::BinOp::Div => BinOp::Div,
        ax::BinOp::Prod => BinOp::Mul,
        ax::BinOp::Rem => BinOp::Rem,
        ax::BinOp::Sum => BinOp::Add,
        ax::BinOp::Sub => BinOp::Sub,
    }
}

pub fn cmp(s: &st::ifc::IfSort) -> Cmp {
    use st::ifc::IfSort::*;
    match s {
        Equal => Cmp::Eq,
        NotEqual => Cmp::Ne,
        Less => Cmp::Lt,
        LessOrEqual => Cmp::Le,
        Greater => Cmp::Gt,
        GreaterOrEqual => Cmp::Ge,
    }
}

#[derive(Default, Debug, Clone)]
pub struct AxStats {
    pub steps: u64,
    pub lets: u64,
    pub creates: u64,
    pub switches: u64,
    pub invokes: u64,
    pub calls: u64,
    pub substitutes: u64,
    pub dup_objects: u64,
    pub drop_objects: u64,
    pub max_env: usize,
    pub big_objects: u64,
    pub prints: u64,
}

/// One observable event of a run (what the emulators are compared with).
#[derive(Clone, Debug, PartialEq, Eq)]
pub struct PrintEvent {
    pub newline: bool,
    pub value: i64,
}

pub struct Machine<'a> {
    prog: &'a ax::Prog,
    defs: HashMap<(String, usize), usize>,
    pub events: Vec<PrintEvent>,
    pub stats: AxStats,
    fuel: u64,
}

fn stuck<T>(msg: String) -> Result<T, Outcome> {
    Err(Outcome::Stuck(msg))
}

impl<'a> Machine<'a> {
    pub fn new(prog: &'a ax::Prog, fuel: u64) -> Self {
        let mut defs = HashMap::new();
        for (i, d) in prog.defs.iter().enumerate() {
            defs.entry((d.name.name.clone(), d.name.id)).or_insert(i);
        }
        Machine { prog, defs, events: vec![], stats: AxStats::default(), fuel }
    }

    fn out_bytes(&self) -> Vec<u8> {
        let mut out = vec![];
        for e in &self.events {
            out.extend_from_slice(e.value.to_string().as_bytes());
            if e.newline {
                out.push(b'\n');
            }
        }
        out
    }

    fn tick(&mut self) -> Result<(), Outcome> {
        self.stats.steps += 1;
        if self.stats.steps > self.fuel || self.events.len() > 20_000 {
            return Err(Outcome::OutOfFuel);
        }
        Ok(())
    }

    fn def(&self, label: &ax::Identifier) -> Result<&'a ax::Def, Outcome> {
        match self.defs.get(&(label.name.clone(), label.id)) {
            Some(i) => Ok(&self.prog.defs[*i]),
            None => stuck(format!("call of unknown label {}", label.name)),
        }
    }

    // ---------------------------------------------------------------------------------
    // named mode
    // ---------------------------------------------------------------------------------

    pub fn run_named(&mut self, args: &[i64]) -> Outcome {
        let main = &self.prog.defs[0];
        if main.context.bindings.len() != args.len() {
            return Outcome::Stuck("main arity".into());
        }
        let mut env: NEnv = None;
        for (b, a) in main.context.bindings.iter().zip(args) {
            env = nbind(&env, b.var.id, Val::Int(*a));
        }
        let mut cur: Rc<ax::Statement> = Rc::new(main.body.clone());
        loop {
            match self.step_named(&cur, env) {
                Ok((s, e)) => {
                    cur = s;
                    env = e;
                }
                Err(o) => return o,
            }
        }
    }

    fn nget(env: &NEnv, v: &ax::Identifier) -> Result<Val, Outcome> {
        match nlookup(env, v.id) {
            Some(x) => Ok(x),
            None => stuck(format!("unbound variable {}_{}", v.name, v.id)),
        }
    }

    fn nint(env: &NEnv, v: &ax::Identifier) -> Result<i64, Outcome> {
        match Self::nget(env, v)? {
            Val::Int(n) => Ok(n),
            _ => stuck(format!("{}_{} is not an integer", v.name, v.id)),
        }
    }

    fn step_named(&mut self, s: &Rc<ax::Statement>, env: NEnv) -> Result<(Rc<ax::Statement>, NEnv), Outcome> {
        self.tick()?;
        match &**s {
            ax::Statement::Substitute(sub) => {
                let mut e2 = env.clone();
                let vals: Result<Vec<Val>, Outcome> =
                    sub.rearrange.iter().map(|(_, old)| Self::nget(&env, old)).collect();
                for ((new, _), v) in sub.rearrange.iter().zip(vals?) {
                    e2 = nbind(&e2, new.var.id, v);
                }
                Ok((sub.next.clone(), e2))
            }
            ax::Statement::Call(c) => {
                self.stats.calls += 1;
                let d = self.def(&c.label)?;
                if d.context.bindings.len() != c.args.bindings.len() {
                    return stuck(format!("call of {} with {} arguments", c.label.name, c.args.bindings.len()));
                }
                let mut e2: NEnv = None;
                for (p, a) in d.context.bindings.iter().zip(c.args.bindings.iter()) {
                    e2 = nbind(&e2, p.var.id, Self::nget(&env, &a.var)?);
                }
                Ok((Rc::new(d.body.clone()), e2))
            }
            ax::Statement::Let(l) => {
                self.stats.lets += 1;
                let fields: Result<Vec<Val>, Outcome> =
                    l.args.bindings.iter().map(|b| Self::nget(&env, &b.var)).collect();
                let v = Val::Obj { tag: xname(&l.tag), fields: Rc::new(fields?) };
                Ok((l.next.clone(), nbind(&env, l.var.id, v)))
            }
            ax::Statement::Switch(sw) => {
                self.stats.switches += 1;
                match Self::nget(&env, &sw.var)? {
                    Val::Obj { tag, fields } => {
                        let Some(cl) = sw.clauses.iter().find(|c| xname(&c.xtor) == tag) else {
                            return stuck(format!("switch: no clause for {tag}"));
                        };
                        if cl.context.bindings.len() != fields.len() {
                            return stuck(format!("switch clause {tag}: arity"));
                        }
                        let mut e2 = env.clone();
                        for (b, f) in cl.context.bindings.iter().zip(fields.iter()) {
                            e2 = nbind(&e2, b.var.id, f.clone());
                        }
                        Ok((cl.body.clone(), e2))
                    }
                    _ => stuck("switch on a non-object".into()),
                }
            }
            ax::Statement::Create(c) => {
                self.stats.creates += 1;
                let v = Val::ClosureN { clauses: Rc::new(c.clauses.clone()), env: env.clone() };
                Ok((c.next.clone(), nbind(&env, c.var.id, v)))
            }
            ax::Statement::Invoke(i) => {
                self.stats.invokes += 1;
                match Self::nget(&env, &i.var)? {
                    Val::ClosureN { clauses, env: cenv } => {
                        let tag = xname(&i.tag);
                        let Some(cl) = clauses.iter().find(|c| xname(&c.xtor) == tag) else {
                            return stuck(format!("invoke: no method {tag}"));
                        };
                        if cl.context.bindings.len() != i.args.bindings.len() {
                            return stuck(format!("invoke {tag}: arity"));
                        }
                        let mut e2 = cenv.clone();
                        for (b, a) in cl.context.bindings.iter().zip(i.args.bindings.iter()) {
                            e2 = nbind(&e2, b.var.id, Self::nget(&env, &a.var)?);
                        }
                        Ok((cl.body.clone(), e2))
                    }
                    _ => stuck("invoke on a non-closure".into()),
                }
            }
            ax::Statement::Literal(l) => Ok((l.next.clone(), nbind(&env, l.var.id, Val::Int(l.lit)))),
            ax::Statement::Op(o) => {
                let a = Self::nint(&env, &o.fst)?;
                let b = Self::nint(&env, &o.snd)?;
                match binop(&o.op).eval(a, b) {
                    Some(r) => Ok((o.next.clone(), nbind(&env, o.var.id, Val::Int(r)))),
                    None => Err(Outcome::Undefined("division")),
                }
            }
            ax::Statement::PrintI64(p) => {
                let n = Self::nint(&env, &p.var)?;
                self.stats.prints += 1;
                self.events.push(PrintEvent { newline: p.newline, value: n });
                Ok((p.next.clone(), env))
            }
            ax::Statement::IfC(i) => {
                let a = Self::nint(&env, &i.fst)?;
                let b = match &i.snd {
                    Some(s) => Self::nint(&env, s)?,
                    None => 0,
                };
                Ok((if cmp(&i.sort).eval(a, b) { i.thenc.clone() } else { i.elsec.clone() }, env))
            }
            ax::Statement::Exit(e) => {
                let n = Self::nint(&env, &e.var)?;
                Err(Outcome::Done { out: self.out_bytes(), result: n })
            }
        }
    }

    // ---------------------------------------------------------------------------------
    // positional mode
    // ---------------------------------------------------------------------------------

    pub fn run_positional(&mut self, args: &[i64]) -> Outcome {
        let main = &self.prog.defs[0];
        if main.context.bindings.len() != args.len() {
            return Outcome::Stuck("main arity".into());
        }
        let mut env: Vec<(ax::ContextBinding, Val)> = main
            .context
            .bindings
            .iter()
            .zip(args)
            .map(|(b, a)| (b.clone(), Val::Int(*a)))
            .collect();
        let mut cur: Rc<ax::Statement> = Rc::new(main.body.clone());
        loop {
            self.stats.max_env = self.stats.max_env.max(env.len());
            match self.step_pos(&cur, env) {
                Ok((s, e)) => {
                    cur = s;
                    env = e;
                }
                Err(o) => return o,
            }
        }
    }

    fn pfind(env: &[(ax::ContextBinding, Val)], v: &ax::Identifier) -> Result<usize, Outcome> {
        match env.iter().position(|(b, _)| b.var.id == v.id) {
            Some(i) => Ok(i),
            None => stuck(format!("variable {}_{} is not in the environment", v.name, v.id)),
        }
    }

    fn pint(env: &[(ax::ContextBinding, Val)], v: &ax::Identifier) -> Result<i64, Outcome> {
        let i = Self::pfind(env, v)?;
        match &env[i].1 {
            Val::Int(n) => Ok(*n),
            _ => stuck(format!("{}_{} is not an integer", v.name, v.id)),
        }
    }

    fn types(&self) -> &'a [ax::TypeDeclaration] {
        &self.prog.types
    }

    fn decl(&self, ty: &ax::Ty) -> Result<&'a ax::TypeDeclaration, Outcome> {
        match ty {
            ax::Ty::Decl(n) => match self.types().iter().find(|d| d.name == *n) {
                Some(d) => Ok(d),
                None => stuck(format!("unknown type {}", n.name)),
            },
            ax::Ty::I64 => stuck("i64 has no declaration".into()),
        }
    }

    fn step_pos(
        &mut self,
        s: &Rc<ax::Statement>,
        mut env: Vec<(ax::ContextBinding, Val)>,
    ) -> Result<(Rc<ax::Statement>, Vec<(ax::ContextBinding, Val)>), Outcome> {
        self.tick()?;
        match &**s {
            ax::Statement::Substitute(sub) => {
                self.stats.substitutes += 1;
                let mut new_env = Vec::with_capacity(sub.rearrange.len());
                for (new, old) in &sub.rearrange {
                    let i = Self::pfind(&env, old)?;
                    new_env.push((new.clone(), env[i].1.clone()));
                }
                for (b, _) in &env {
                    if b.chi != ax::Chirality::Ext {
                        let n = sub.rearrange.iter().filter(|(_, old)| old.id == b.var.id).count();
                        if n == 0 {
                            self.stats.drop_objects += 1;
                        } else if n > 1 {
                            self.stats.dup_objects += 1;
                        }
                    }
                }
                Ok((sub.next.clone(), new_env))
            }
            ax::Statement::Call(c) => {
                self.stats.calls += 1;
                let d = self.def(&c.label)?;
                if d.context.bindings.len() != env.len() {
                    return stuck(format!(
                        "call of {}: environment has {} variables, the callee expects {}",
                        c.label.name,
                        env.len(),
                        d.context.bindings.len()
                    ));
                }
                let new_env = d
                    .context
                    .bindings
                    .iter()
                    .zip(env)
                    .map(|(p, (_, v))| (p.clone(), v))
                    .collect();
                Ok((Rc::new(d.body.clone()), new_env))
            }
            ax::Statement::Let(l) => {
                self.stats.lets += 1;
                let n = l.args.bindings.len();
                if env.len() < n {
                    return stuck("let: environment too short".into());
                }
                let tail = env.split_off(env.len() - n);
                for ((b, _), a) in tail.iter().zip(l.args.bindings.iter()) {
                    if b.var.id != a.var.id {
                        return stuck(format!(
                            "let {}: the arguments are not the tail of the environment",
                            l.var.name
                        ));
                    }
                }
                if n > 3 {
                    self.stats.big_objects += 1;
                }
                let v = Val::Obj {
                    tag: xname(&l.tag),
                    fields: Rc::new(tail.into_iter().map(|(_, v)| v).collect()),
                };
                env.push((
                    ax::ContextBinding { var: l.var.clone(), chi: ax::Chirality::Prd, ty: l.ty.clone() },
                    v,
                ));
                Ok((l.next.clone(), env))
            }
            ax::Statement::Switch(sw) => {
                self.stats.switches += 1;
                let Some((b, v)) = env.pop() else { return stuck("switch: empty environment".into()) };
                if b.var.id != sw.var.id {
                    return stuck(format!("switch {}: scrutinee is not last in the environment", sw.var.name));
                }
                match v {
                    Val::Obj { tag, fields } => {
                        let decl = self.decl(&sw.ty)?;
                        let Some(pos) = decl.xtors.iter().position(|x| xname(&x.name) == tag) else {
                            return stuck(format!("switch: tag {tag} not in type"));
                        };
                        let Some(cl) = sw.clauses.get(pos) else {
                            return stuck(format!("switch: no clause at table position {pos}"));
                        };
                        if xname(&cl.xtor) != tag {
                            return stuck(format!(
                                "switch: the clause at table position {pos} is {} but the tag is {tag}",
                                cl.xtor.name
                            ));
                        }
                        if cl.context.bindings.len() != fields.len() {
                            return stuck(format!("switch clause {tag}: arity"));
                        }
                        for (b, f) in cl.context.bindings.iter().zip(fields.iter()) {
                            env.push((b.clone(), f.clone()));
                        }
                        Ok((cl.body.clone(), env))
                    }
                    _ => stuck("switch on a non-object".into()),
                }
            }
            ax::Statement::Create(c) => {
                self.stats.creates += 1;
                let Some(cenv) = &c.context else {
                    return stuck("create without annotated closure environment".into());
                };
                let n = cenv.bindings.len();
                if env.len() < n {
                    return stuck("create: environment too short".into());
                }
                let tail = env.split_off(env.len() - n);
                for ((b, _), a) in tail.iter().zip(cenv.bindings.iter()) {
                    if b.var.id != a.var.id {
                        return stuck(format!(
                            "create {}: the closure environment is not the tail of the environment",
                            c.var.name
                        ));
                    }
                }
                if n > 3 {
                    self.stats.big_objects += 1;
                }
                let v = Val::ClosureP { clauses: Rc::new(c.clauses.clone()), env: Rc::new(tail) };
                env.push((
                    ax::ContextBinding { var: c.var.clone(), chi: ax::Chirality::Cns, ty: c.ty.clone() },
                    v,
                ));
                Ok((c.next.clone(), env))
            }
            ax::Statement::Invoke(i) => {
                self.stats.invokes += 1;
                let Some((b, v)) = env.pop() else { return stuck("invoke: empty environment".into()) };
                if b.var.id != i.var.id {
                    return stuck(format!("invoke {}: closure is not last in the environment", i.var.name));
                }
                match v {
                    Val::ClosureP { clauses, env: cenv } => {
                        let decl = self.decl(&i.ty)?;
                        let tag = xname(&i.tag);
                        let Some(pos) = decl.xtors.iter().position(|x| xname(&x.name) == tag) else {
                            return stuck(format!("invoke: tag {tag} not in type"));
                        };
                        let Some(cl) = clauses.get(pos) else {
                            return stuck(format!("invoke: no method at table position {pos}"));
                        };
                        if xname(&cl.xtor) != tag {
                            return stuck(format!(
                                "invoke: the method at table position {pos} is {} but the tag is {tag}",
                                cl.xtor.name
                            ));
                        }
                        if cl.context.bindings.len() != env.len() {
                            return stuck(format!(
                                "invoke {tag}: {} arguments in the environment, the method expects {}",
                                env.len(),
                                cl.context.bindings.len()
                            ));
                        }
                        let mut new_env: Vec<(ax::ContextBinding, Val)> = cl
                            .context
                            .bindings
                            .iter()
                            .zip(env)
                            .map(|(b, (_, v))| (b.clone(), v))
                            .collect();
                        new_env.extend(cenv.iter().cloned());
                        Ok((cl.body.clone(), new_env))
                    }
                    _ => stuck("invoke on a non-closure".into()),
                }
            }
            ax::Statement::Literal(l) => {
                env.push((
                    ax::ContextBinding { var: l.var.clone(), chi: ax::Chirality::Ext, ty: ax::Ty::I64 },
                    Val::Int(l.lit),
                ));
                Ok((l.next.clone(), env))
            }
            ax::Statement::Op(o) => {
                let a = Self::pint(&env, &o.fst)?;
                let b = Self::pint(&env, &o.snd)?;
                match binop(&o.op).eval(a, b) {
                    Some(r) => {
                        env.push((
                            ax::ContextBinding { var: o.var.clone(), chi: ax::Chirality::Ext, ty: ax::Ty::I64 },
                            Val::Int(r),
                        ));
                        Ok((o.next.clone(), env))
                    }
                    None => Err(Outcome::Undefined("division")),
                }
            }
            ax::Statement::PrintI64(p) => {
                let n = Self::pint(&env, &p.var)?;
                self.stats.prints += 1;
                self.events.push(PrintEvent { newline: p.newline, value: n });
                Ok((p.next.clone(), env))
            }
            ax::Statement::IfC(i) => {
                let a = Self::pint(&env, &i.fst)?;
                let b = match &i.snd {
                    Some(s) => Self::pint(&env, s)?,
                    None => 0,
                };
                Ok((if cmp(&i.sort).eval(a, b) { i.thenc.clone() } else { i.elsec.clone() }, env))
            }
            ax::Statement::Exit(e) => {
                let n = Self::pint(&env, &e.var)?;
                Err(Outcome::Done { out: self.out_bytes(), result: n })
            }
        }
    }
}

pub fn run_named(prog: &ax::Prog, args: &[i64], fuel: u64) -> (Outcome, AxStats) {
    let mut m = Machine::new(prog, fuel);
    let o = m.run_named(args);
    (o, m.stats)
}

pub fn run_positional(prog: &ax::Prog, args: &[i64], fuel: u64) -> (Outcome, AxStats, Vec<PrintEvent>) {
    let mut m = Machine::new(prog, fuel);
    let o = m.run_positional(args);
    (o, m.stats, m.events)
}

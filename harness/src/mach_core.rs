//! Abstract machine for Core (the lambda-mu-mu-tilde calculus of `core_lang`) with *dynamic*
//! focusing, written from the calculus and not from `focus.rs`.
//!
//! * cut at `i64` or a data type: producer first (call by value); at a codata type: consumer first
//!   (call by name).  Values at data/int type: variables, literals, constructors of values;
//!   every consumer is a covalue.  At codata type every producer is a value; covalues are
//!   covariables and destructors of (co)values, a mu-tilde is not.
//! * a non-(co)value in an argument position is evaluated first, left to right, with the
//!   enclosing (partially evaluated) statement as its context; that context is reified when a mu
//!   (at data type) or mu-tilde (at codata type) is met, so it can be resumed any number of times.
//!
//! Both `Prog` (unfocused) and `FsProg` (focused) are converted into the same internal IR.

use crate::fun_ast::{BinOp, Cmp};
use crate::ref_fun::Outcome;
use core_lang::syntax as cs;
use std::collections::HashMap;
use std::rc::Rc;

pub type Id = (Rc<str>, usize);

#[derive(Debug)]
pub enum CTm {
    Var { id: Id, prd: bool },
    Lit(i64),
    Op(Rc<CTm>, BinOp, Rc<CTm>),
    /// prd = true: mu (binds a covariable, is a producer); prd = false: mu-tilde
    Mu { prd: bool, var: Id, body: Rc<CSt>, codata: bool },
    Xtor { prd: bool, name: Rc<str>, args: Rc<Vec<(bool, Rc<CTm>)>> },
    XCase { prd: bool, clauses: Rc<Vec<CClause>> },
}

#[derive(Debug)]
pub struct CClause {
    pub xtor: Rc<str>,
    pub params: Vec<Id>,
    pub body: Rc<CSt>,
}

#[derive(Debug)]
pub enum CSt {
    Cut { p: Rc<CTm>, c: Rc<CTm>, codata: bool },
    If { sort: Cmp, fst: Rc<CTm>, snd: Option<Rc<CTm>>, thn: Rc<CSt>, els: Rc<CSt> },
    Print { newline: bool, arg: Rc<CTm>, next: Rc<CSt> },
    Call { name: Rc<str>, args: Rc<Vec<(bool, Rc<CTm>)>> },
    Exit(Rc<CTm>),
}

pub struct CDef {
    pub name: Rc<str>,
    pub params: Vec<Id>,
    pub body: Rc<CSt>,
}

pub struct CProg {
    pub defs: HashMap<Rc<str>, CDef>,
}

// ------------------------------------------------------------------------------------------
// conversion
// ------------------------------------------------------------------------------------------

struct Conv<'a> {
    codata: &'a [cs::CodataDeclaration],
}

fn id_of(i: &cs::Identifier) -> Id {
    (Rc::from(i.name.as_str()), i.id)
}

fn name_of(i: &cs::Identifier) -> Rc<str> {
    // top-level names and xtor names: name plus id (ids are 0 for user names)
    if i.id == 0 { Rc::from(i.name.as_str()) } else { Rc::from(format!("{}_{}", i.name, i.id).as_str()) }
}

fn binop(op: &cs::BinOp) -> BinOp {
    match op {
        cs::BinOp::Div => BinOp::Div,
        cs::BinOp::Prod => BinOp::Mul,
        cs::BinOp::Rem => BinOp::Rem,
        cs::BinOp::Sum => BinOp::Add,
        cs::BinOp::Sub => BinOp::Sub,
    }
}

fn cmp(s: &cs::IfSort) -> Cmp {
    match s {
        cs::IfSort::Equal => Cmp::Eq,
        cs::IfSort::NotEqual => Cmp::Ne,
        cs::IfSort::Less => Cmp::Lt,
        cs::IfSort::LessOrEqual => Cmp::Le,
        cs::IfSort::Greater => Cmp::Gt,
        cs::IfSort::GreaterOrEqual => Cmp::Ge,
    }
}

impl Conv<'_> {
    fn is_codata(&self, ty: &cs::Ty) -> bool {
        ty.is_codata(self.codata)
    }

    fn var_binding(b: &cs::ContextBinding) -> (bool, Rc<CTm>) {
        let prd = b.chi == cs::Chirality::Prd;
        (prd, Rc::new(CTm::Var { id: id_of(&b.var), prd }))
    }

    fn ctx_ids(ctx: &cs::TypingContext) -> Vec<Id> {
        ctx.bindings.iter().map(|b| id_of(&b.var)).collect()
    }

    // ---- unfocused ----
    fn term<C: cs::Chi>(&self, t: &cs::Term<C>) -> Rc<CTm> {
        Rc::new(match t {
            cs::Term::XVar(v) => CTm::Var { id: id_of(&v.var), prd: v.prdcns.is_prd() },
            cs::Term::Literal(l) => CTm::Lit(l.lit),
            cs::Term::Op(o) => CTm::Op(self.term(&o.fst), binop(&o.op), self.term(&o.snd)),
            cs::Term::Mu(m) => CTm::Mu {
                prd: m.prdcns.is_prd(),
                var: id_of(&m.variable),
                body: self.stmt(&m.statement),
                codata: self.is_codata(&m.ty),
            },
            cs::Term::Xtor(x) => CTm::Xtor {
                prd: x.prdcns.is_prd(),
                name: name_of(&x.name),
                args: Rc::new(self.args(&x.args)),
            },
            cs::Term::XCase(x) => CTm::XCase {
                prd: x.prdcns.is_prd(),
                clauses: Rc::new(
                    x.clauses
                        .iter()
                        .map(|c| CClause {
                            xtor: name_of(&c.xtor),
                            params: Self::ctx_ids(&c.context),
                            body: self.stmt(&c.body),
                        })
                        .collect(),
                ),
            },
        })
    }

    fn args(&self, a: &cs::Arguments) -> Vec<(bool, Rc<CTm>)> {
        a.entries
            .iter()
            .map(|e| match e {
                cs::arguments::Argument::Producer(p) => (true, self.term(p)),
                cs::arguments::Argument::Consumer(c) => (false, self.term(c)),
            })
            .collect()
    }

    fn stmt(&self, s: &cs::Statement) -> Rc<CSt> {
        Rc::new(match s {
            cs::Statement::Cut(c) => CSt::Cut {
                p: self.term(&c.producer),
                c: self.term(&c.consumer),
                codata: self.is_codata(&c.ty),
            },
            cs::Statement::IfC(i) => CSt::If {
                sort: cmp(&i.sort),
                fst: self.term(&i.fst),
                snd: i.snd.as_ref().map(|s| self.term(s)),
                thn: self.stmt(&i.thenc),
                els: self.stmt(&i.elsec),
            },
            cs::Statement::PrintI64(p) => CSt::Print {
                newline: p.newline,
                arg: self.term(&p.arg),
                next: self.stmt(&p.next),
            },
            cs::Statement::Call(c) => CSt::Call { name: name_of(&c.name), args: Rc::new(self.args(&c.args)) },
            cs::Statement::Exit(e) => CSt::Exit(self.term(&e.arg)),
        })
    }

    // ---- focused ----
    fn int_var(i: &cs::Identifier) -> Rc<CTm> {
        Rc::new(CTm::Var { id: id_of(i), prd: true })
    }

    fn fs_term<C: cs::Chi>(&self, t: &cs::FsTerm<C>) -> Rc<CTm> {
        Rc::new(match t {
            cs::FsTerm::XVar(v) => CTm::Var { id: id_of(&v.var), prd: v.prdcns.is_prd() },
            cs::FsTerm::Literal(l) => CTm::Lit(l.lit),
            cs::FsTerm::Op(o) => CTm::Op(Self::int_var(&o.fst), binop(&o.op), Self::int_var(&o.snd)),
            cs::FsTerm::Mu(m) => CTm::Mu {
                prd: m.prdcns.is_prd(),
                var: id_of(&m.variable),
                body: self.fs_stmt(&m.statement),
                codata: self.is_codata(&m.ty),
            },
            cs::FsTerm::Xtor(x) => CTm::Xtor {
                prd: x.prdcns.is_prd(),
                name: name_of(&x.name),
                args: Rc::new(x.args.bindings.iter().map(Self::var_binding).collect()),
            },
            cs::FsTerm::XCase(x) => CTm::XCase {
                prd: x.prdcns.is_prd(),
                clauses: Rc::new(
                    x.clauses
                        .iter()
                        .map(|c| CClause {
                            xtor: name_of(&c.xtor),
                            params: Self::ctx_ids(&c.context),
                            body: self.fs_stmt(&c.body),
                        })
                        .collect(),
                ),
            },
        })
    }

    fn fs_stmt(&self, s: &cs::FsStatement) -> Rc<CSt> {
        Rc::new(match s {
            cs::FsStatement::Cut(c) => CSt::Cut {
                p: self.fs_term(&c.producer),
                c: self.fs_term(&c.consumer),
                codata: self.is_codata(&c.ty),
            },
            cs::FsStatement::IfC(i) => CSt::If {
                sort: cmp(&i.sort),
                fst: Self::int_var(&i.fst),
                snd: i.snd.as_ref().map(Self::int_var),
                thn: self.fs_stmt(&i.thenc),
                els: self.fs_stmt(&i.elsec),
            },
            cs::FsStatement::PrintI64(p) => CSt::Print {
                newline: p.newline,
                arg: Self::int_var(&p.arg),
                next: self.fs_stmt(&p.next),
            },
            cs::FsStatement::Call(c) => CSt::Call {
                name: name_of(&c.name),
                args: Rc::new(c.args.bindings.iter().map(Self::var_binding).collect()),
            },
            cs::FsStatement::Exit(e) => CSt::Exit(Self::int_var(&e.var)),
        })
    }
}

pub fn from_prog(p: &cs::Prog) -> CProg {
    let cv = Conv { codata: &p.codata_types };
    let mut defs = HashMap::new();
    for d in &p.defs {
        let name = name_of(&d.name);
        defs.insert(
            name.clone(),
            CDef { name, params: Conv::ctx_ids(&d.context), body: cv.stmt(&d.body) },
        );
    }
    CProg { defs }
}

pub fn from_fs_prog(p: &cs::FsProg) -> CProg {
    let cv = Conv { codata: &p.codata_types };
    let mut defs = HashMap::new();
    for d in &p.defs {
        let name = name_of(&d.name);
        defs.insert(
            name.clone(),
            CDef { name, params: Conv::ctx_ids(&d.context), body: cv.fs_stmt(&d.body) },
        );
    }
    CProg { defs }
}

// ------------------------------------------------------------------------------------------
// machine
// ------------------------------------------------------------------------------------------

#[derive(Clone)]
enum PV {
    Int(i64),
    Ctor(Rc<str>, Rc<Vec<AV>>),
    Thunk(Id, Rc<CSt>, Env),
    CoCase(Rc<Vec<CClause>>, Env),
    /// a producer that, cut against a covalue, returns this covalue to the reified context
    Resume(Stack),
}

#[derive(Clone)]
enum CV {
    MuT(Id, Rc<CSt>, Env),
    Case(Rc<Vec<CClause>>, Env),
    Dtor(Rc<str>, Rc<Vec<AV>>),
    /// a consumer that, cut against a value, returns this value to the reified context
    ResumeC(Stack),
}

#[derive(Clone)]
enum AV {
    P(PV),
    C(CV),
}

struct EnvNode {
    id: Id,
    val: AV,
    next: Env,
}
type Env = Option<Rc<EnvNode>>;

fn bind(env: &Env, id: &Id, val: AV) -> Env {
    Some(Rc::new(EnvNode { id: id.clone(), val, next: env.clone() }))
}

fn lookup(env: &Env, id: &Id) -> Option<AV> {
    let mut cur = env;
    while let Some(n) = cur {
        if n.id.1 == id.1 && n.id.0 == id.0 {
            return Some(n.val.clone());
        }
        cur = &n.next;
    }
    None
}

#[derive(Clone)]
enum ArgsKind {
    Ctor(Rc<str>),
    Dtor(Rc<str>),
    Call(Rc<str>),
}

enum Frame {
    CutData { c: Rc<CTm>, env: Env },
    CutCodata { p: Rc<CTm>, env: Env },
    Args { kind: ArgsKind, items: Rc<Vec<(bool, Rc<CTm>)>>, idx: usize, done: Rc<Vec<AV>>, env: Env },
    Op1 { op: BinOp, snd: Rc<CTm>, env: Env },
    Op2 { op: BinOp, a: i64 },
    If1 { st: Rc<CSt>, env: Env },
    If2 { st: Rc<CSt>, a: i64, env: Env },
    PrintF { newline: bool, next: Rc<CSt>, env: Env },
    ExitF,
}

struct StackNode {
    frame: Frame,
    next: Stack,
}
type Stack = Option<Rc<StackNode>>;

fn push(stack: &Stack, frame: Frame) -> Stack {
    Some(Rc::new(StackNode { frame, next: stack.clone() }))
}

enum State {
    Exec(Rc<CSt>, Env),
    EvalP(Rc<CTm>, Env, Stack),
    EvalC(Rc<CTm>, Env, Stack),
    RetP(PV, Stack),
    RetC(CV, Stack),
    Args(ArgsKind, Rc<Vec<(bool, Rc<CTm>)>>, usize, Rc<Vec<AV>>, Env, Stack),
}

#[derive(Default, Debug, Clone)]
pub struct CoreStats {
    pub steps: u64,
    pub reified_contexts: u64,
    pub resumes: u64,
    pub prints: u64,
}

pub struct Machine<'a> {
    prog: &'a CProg,
    out: Vec<u8>,
    pub stats: CoreStats,
    fuel: u64,
}

type R = Result<State, Outcome>;

fn stuck<T>(msg: &str) -> Result<T, Outcome> {
    Err(Outcome::Stuck(msg.to_string()))
}

impl<'a> Machine<'a> {
    pub fn new(prog: &'a CProg, fuel: u64) -> Self {
        Machine { prog, out: vec![], stats: CoreStats::default(), fuel }
    }

    pub fn run_main(&mut self, args: &[i64]) -> Outcome {
        let Some(main) = self.prog.defs.get("main") else {
            return Outcome::Stuck("no main".into());
        };
        if main.params.len() != args.len() {
            return Outcome::Stuck(format!("main expects {} arguments", main.params.len()));
        }
        let mut env: Env = None;
        for (p, a) in main.params.iter().zip(args) {
            env = bind(&env, p, AV::P(PV::Int(*a)));
        }
        let mut st = State::Exec(main.body.clone(), env);
        loop {
            self.stats.steps += 1;
            if self.stats.steps > self.fuel || self.out.len() > (1 << 16) {
                return Outcome::OutOfFuel;
            }
            st = match self.step(st) {
                Ok(s) => s,
                Err(o) => return o,
            };
        }
    }

    fn step(&mut self, st: State) -> R {
        match st {
            State::Exec(s, env) => self.exec(s, env),
            State::EvalP(t, env, k) => self.eval_p(t, env, k),
            State::EvalC(t, env, k) => self.eval_c(t, env, k),
            State::RetP(v, k) => self.ret_p(v, k),
            State::RetC(v, k) => self.ret_c(v, k),
            State::Args(kind, items, idx, done, env, k) => self.args(kind, items, idx, done, env, k),
        }
    }

    fn exec(&mut self, s: Rc<CSt>, env: Env) -> R {
        Ok(match &*s {
            CSt::Cut { p, c, codata } => {
                if *codata {
                    State::EvalC(c.clone(), env.clone(), push(&None, Frame::CutCodata { p: p.clone(), env }))
                } else {
                    State::EvalP(p.clone(), env.clone(), push(&None, Frame::CutData { c: c.clone(), env }))
                }
            }
            CSt::If { fst, .. } => State::EvalP(fst.clone(), env.clone(), push(&None, Frame::If1 { st: s.clone(), env })),
            CSt::Print { newline, arg, next } => State::EvalP(
                arg.clone(),
                env.clone(),
                push(&None, Frame::PrintF { newline: *newline, next: next.clone(), env }),
            ),
            CSt::Call { name, args } => {
                State::Args(ArgsKind::Call(name.clone()), args.clone(), 0, Rc::new(vec![]), env, None)
            }
            CSt::Exit(a) => State::EvalP(a.clone(), env, push(&None, Frame::ExitF)),
        })
    }

    fn eval_p(&mut self, t: Rc<CTm>, env: Env, k: Stack) -> R {
        Ok(match &*t {
            CTm::Var { id, .. } => match lookup(&env, id) {
                Some(AV::P(v)) => State::RetP(v, k),
                Some(AV::C(_)) => return stuck("covariable used as a producer"),
                None => return stuck(&format!("unbound variable {}_{}", id.0, id.1)),
            },
            CTm::Lit(n) => State::RetP(PV::Int(*n), k),
            CTm::Op(a, op, b) => {
                State::EvalP(a.clone(), env.clone(), push(&k, Frame::Op1 { op: *op, snd: b.clone(), env }))
            }
            CTm::Mu { prd: true, var, body, codata } => {
                if *codata {
                    State::RetP(PV::Thunk(var.clone(), body.clone(), env), k)
                } else {
                    // not a value: run it, with the current context as its continuation
                    self.stats.reified_contexts += 1;
                    State::Exec(body.clone(), bind(&env, var, AV::C(CV::ResumeC(k))))
                }
            }
            CTm::Xtor { prd: true, name, args } => {
                State::Args(ArgsKind::Ctor(name.clone()), args.clone(), 0, Rc::new(vec![]), env, k)
            }
            CTm::XCase { prd: true, clauses } => State::RetP(PV::CoCase(clauses.clone(), env), k),
            _ => return stuck("consumer in producer position"),
        })
    }

    fn eval_c(&mut self, t: Rc<CTm>, env: Env, k: Stack) -> R {
        Ok(match &*t {
            CTm::Var { id, .. } => match lookup(&env, id) {
                Some(AV::C(v)) => State::RetC(v, k),
                Some(AV::P(_)) => return stuck("variable used as a consumer"),
                None => return stuck(&format!("unbound covariable {}_{}", id.0, id.1)),
            },
            CTm::Mu { prd: false, var, body, codata } => {
                if *codata {
                    // not a covalue at a codata type: run it, the current context is its producer
                    self.stats.reified_contexts += 1;
                    State::Exec(body.clone(), bind(&env, var, AV::P(PV::Resume(k))))
                } else {
                    State::RetC(CV::MuT(var.clone(), body.clone(), env), k)
                }
            }
            CTm::Xtor { prd: false, name, args } => {
                State::Args(ArgsKind::Dtor(name.clone()), args.clone(), 0, Rc::new(vec![]), env, k)
            }
            CTm::XCase { prd: false, clauses } => State::RetC(CV::Case(clauses.clone(), env), k),
            _ => return stuck("producer in consumer position"),
        })
    }

    fn args(
        &mut self,
        kind: ArgsKind,
        items: Rc<Vec<(bool, Rc<CTm>)>>,
        idx: usize,
        done: Rc<Vec<AV>>,
        env: Env,
        k: Stack,
    ) -> R {
        if idx < items.len() {
            let (is_prd, t) = items[idx].clone();
            let frame = Frame::Args { kind, items: items.clone(), idx, done, env: env.clone() };
            let k2 = push(&k, frame);
            return Ok(if is_prd { State::EvalP(t, env, k2) } else { State::EvalC(t, env, k2) });
        }
        match kind {
            ArgsKind::Ctor(name) => Ok(State::RetP(PV::Ctor(name, done), k)),
            ArgsKind::Dtor(name) => Ok(State::RetC(CV::Dtor(name, done), k)),
            ArgsKind::Call(name) => {
                let Some(def) = self.prog.defs.get(&name) else {
                    return stuck(&format!("call of unknown definition {name}"));
                };
                if def.params.len() != done.len() {
                    return stuck(&format!("call of {name} with {} arguments", done.len()));
                }
                let mut env2: Env = None;
                for (p, v) in def.params.iter().zip(done.iter()) {
                    env2 = bind(&env2, p, v.clone());
                }
                Ok(State::Exec(def.body.clone(), env2))
            }
        }
    }

    fn select(clauses: &Rc<Vec<CClause>>, env: &Env, name: &Rc<str>, args: &Rc<Vec<AV>>) -> R {
        let Some(cl) = clauses.iter().find(|c| c.xtor == *name) else {
            return stuck(&format!("no clause for {name}"));
        };
        if cl.params.len() != args.len() {
            return stuck(&format!("clause {name}: arity"));
        }
        let mut env2 = env.clone();
        for (p, v) in cl.params.iter().zip(args.iter()) {
            env2 = bind(&env2, p, v.clone());
        }
        Ok(State::Exec(cl.body.clone(), env2))
    }

    fn apply_c(&mut self, cv: CV, pv: PV) -> R {
        match cv {
            CV::MuT(x, s, env) => Ok(State::Exec(s, bind(&env, &x, AV::P(pv)))),
            CV::Case(clauses, env) => match pv {
                PV::Ctor(name, args) => Self::select(&clauses, &env, &name, &args),
                _ => stuck("case against a non-constructor"),
            },
            CV::ResumeC(k) => {
                self.stats.resumes += 1;
                Ok(State::RetP(pv, k))
            }
            CV::Dtor(..) => stuck("destructor as a consumer at a data type"),
        }
    }

    fn apply_p(&mut self, pv: PV, cv: CV) -> R {
        match pv {
            PV::Thunk(a, s, env) => Ok(State::Exec(s, bind(&env, &a, AV::C(cv)))),
            PV::CoCase(clauses, env) => match cv {
                CV::Dtor(name, args) => Self::select(&clauses, &env, &name, &args),
                _ => stuck("cocase against a non-destructor"),
            },
            PV::Resume(k) => {
                self.stats.resumes += 1;
                Ok(State::RetC(cv, k))
            }
            _ => stuck("data value as a producer at a codata type"),
        }
    }

    fn ret_p(&mut self, v: PV, k: Stack) -> R {
        let Some(node) = k else { return stuck("value returned to an empty context") };
        let next = node.next.clone();
        let int = |v: &PV| -> Result<i64, Outcome> {
            match v {
                PV::Int(n) => Ok(*n),
                _ => Err(Outcome::Stuck("integer expected".into())),
            }
        };
        match &node.frame {
            Frame::CutData { c, env } => {
                // every consumer is a covalue at a data type
                let cv = match &**c {
                    CTm::Var { id, .. } => match lookup(env, id) {
                        Some(AV::C(cv)) => cv,
                        _ => return stuck("unbound covariable in cut"),
                    },
                    CTm::Mu { prd: false, var, body, .. } => CV::MuT(var.clone(), body.clone(), env.clone()),
                    CTm::XCase { prd: false, clauses } => CV::Case(clauses.clone(), env.clone()),
                    _ => return stuck("ill-formed consumer in a cut at a data type"),
                };
                self.apply_c(cv, v)
            }
            Frame::Args { kind, items, idx, done, env } => {
                let mut done = done.clone();
                Rc::make_mut(&mut done).push(AV::P(v));
                Ok(State::Args(kind.clone(), items.clone(), idx + 1, done, env.clone(), next))
            }
            Frame::Op1 { op, snd, env } => {
                let a = int(&v)?;
                Ok(State::EvalP(snd.clone(), env.clone(), push(&next, Frame::Op2 { op: *op, a })))
            }
            Frame::Op2 { op, a } => {
                let b = int(&v)?;
                match op.eval(*a, b) {
                    Some(r) => Ok(State::RetP(PV::Int(r), next)),
                    None => Err(Outcome::Undefined("division")),
                }
            }
            Frame::If1 { st, env } => {
                let a = int(&v)?;
                let CSt::If { sort, snd, thn, els, .. } = &**st else { return stuck("if frame") };
                match snd {
                    None => Ok(State::Exec(if sort.eval(a, 0) { thn.clone() } else { els.clone() }, env.clone())),
                    Some(s) => Ok(State::EvalP(
                        s.clone(),
                        env.clone(),
                        push(&next, Frame::If2 { st: st.clone(), a, env: env.clone() }),
                    )),
                }
            }
            Frame::If2 { st, a, env } => {
                let b = int(&v)?;
                let CSt::If { sort, thn, els, .. } = &**st else { return stuck("if frame") };
                Ok(State::Exec(if sort.eval(*a, b) { thn.clone() } else { els.clone() }, env.clone()))
            }
            Frame::PrintF { newline, next: nx, env } => {
                let n = int(&v)?;
                self.stats.prints += 1;
                self.out.extend_from_slice(n.to_string().as_bytes());
                if *newline {
                    self.out.push(b'\n');
                }
                Ok(State::Exec(nx.clone(), env.clone()))
            }
            Frame::ExitF => {
                let n = int(&v)?;
                Err(Outcome::Done { out: std::mem::take(&mut self.out), result: n })
            }
            Frame::CutCodata { .. } => stuck("value returned to a cut at a codata type"),
        }
    }

    fn ret_c(&mut self, v: CV, k: Stack) -> R {
        let Some(node) = k else { return stuck("covalue returned to an empty context") };
        let next = node.next.clone();
        match &node.frame {
            Frame::CutCodata { p, env } => {
                // every producer is a value at a codata type
                let pv = match &**p {
                    CTm::Var { id, .. } => match lookup(env, id) {
                        Some(AV::P(pv)) => pv,
                        _ => return stuck("unbound variable in cut"),
                    },
                    CTm::Mu { prd: true, var, body, .. } => PV::Thunk(var.clone(), body.clone(), env.clone()),
                    CTm::XCase { prd: true, clauses } => PV::CoCase(clauses.clone(), env.clone()),
                    _ => return stuck("ill-formed producer in a cut at a codata type"),
                };
                self.apply_p(pv, v)
            }
            Frame::Args { kind, items, idx, done, env } => {
                let mut done = done.clone();
                Rc::make_mut(&mut done).push(AV::C(v));
                Ok(State::Args(kind.clone(), items.clone(), idx + 1, done, env.clone(), next))
            }
            _ => stuck("covalue returned to a frame expecting a value"),
        }
    }
}

pub fn run(prog: &CProg, args: &[i64], fuel: u64) -> (Outcome, CoreStats) {
    // (stats.steps is what callers scale budgets with)
    let mut m = Machine::new(prog, fuel);
    let o = m.run_main(args);
    (o, m.stats)
}


use sccv::runner::{self, Ctx, Tier};
use sccv::{checks, native, pipeline};
use std::path::PathBuf;

fn root_dir() -> PathBuf {
    if let Ok(r) = std::env::var("VERIF_ROOT") {
        return PathBuf::from(r);
    }
    // <root>/harness/target/release/sccv
    let exe = std::env::current_exe().expect("exe");
    exe.ancestors().nth(4).map(|p| p.to_path_buf()).unwrap_or_else(|| PathBuf::from("/verif"))
}

fn usage() -> ! {
    eprintln!("usage: sccv check <ID> [--tier quick|thorough] [--seed N]\n       sccv replay <ID> <file>\n       sccv gen <seed> [n]   (print sample programs)");
    std::process::exit(2)
}

fn main() {
    let args: Vec<String> = std::env::args().collect();
    if args.len() < 3 {
        usage();
    }
    let root = root_dir();
    let scratch = root.join(".scratch").join(format!("{}", std::process::id()));
    std::fs::create_dir_all(&scratch).expect("scratch dir");
    // the compiler's driver writes below the current directory
    std::env::set_current_dir(&scratch).expect("chdir");
    pipeline::install_panic_hook();
    // the front end is recursive: give the workers room for deeply nested inputs
    let _ = rayon::ThreadPoolBuilder::new().stack_size(64 << 20).build_global();
    let mut tier = match std::env::var("VERIF_TIER").as_deref() {
        Ok("thorough") => Tier::Thorough,
        _ => Tier::Quick,
    };
    let mut seed: u64 = std::env::var("VERIF_SEED").ok().and_then(|s| s.parse().ok()).unwrap_or(0);
    let mut i = 3;
    let mut rest = vec![];
    while i < args.len() {
        match args[i].as_str() {
            "--tier" => {
                i += 1;
                tier = if args.get(i).map(|s| s.as_str()) == Some("thorough") { Tier::Thorough } else { Tier::Quick };
            }
            "--seed" => {
                i += 1;
                seed = args.get(i).and_then(|s| s.parse().ok()).unwrap_or(0);
            }
            other => rest.push(other.to_string()),
        }
        i += 1;
    }
    let id = args[2].clone();
    let mut ctx = Ctx {
        id: id.clone(),
        tier,
        seed,
        root: root.clone(),
        scratch: scratch.clone(),
        known: runner::load_known(&root),
        verbose: false,
    };
    let code = match args[1].as_str() {
        "check" => checks::run_check(&ctx),
        "replay" => {
            ctx.verbose = true;
            let file = rest.first().cloned().unwrap_or_else(|| usage());
            let file = if PathBuf::from(&file).is_absolute() { PathBuf::from(file) } else { root.join(file) };
            // generator configurations depend on the tier: decode the bytes as the finding run did
            if let Ok(txt) = std::fs::read_to_string(&file) {
                if txt.contains("\"tier\": \"thorough\"") || txt.contains("\"tier\":\"thorough\"") {
                    ctx.tier = Tier::Thorough;
                } else if txt.contains("\"tier\"") {
                    ctx.tier = Tier::Quick;
                }
            }
            checks::run_replay(&ctx, &file)
        }
        "compile1" => checks::c18::child_main(&rest[0]),
        "stage" => {
            // fresh-process helper of C17: print every printable stage of one file
            let text = std::fs::read_to_string(&rest[0]).unwrap_or_default();
            match checks::c17::all_stages(&text) {
                Ok(s) => print!("{s}"),
                Err(e) => print!("ERROR {e}"),
            }
            0
        }
        "native" => {
            // debug helper: sccv native x <file.sc> args...
            let text = std::fs::read_to_string(&rest[0]).expect("file");
            let tc = native::Toolchain::new(scratch.clone());
            match pipeline::front(&text) {
                Err(e) => println!("front: {e}"),
                Ok(c) => match pipeline::codegen(c.linear, pipeline::Arch::X86) {
                    Err(e) => println!("codegen: {e}"),
                    Ok((asm, n)) => {
                        if std::env::var("KEEP_ASM").is_ok() {
                            std::fs::write("/tmp/t/last.asm", &asm).ok();
                        }
                        match tc.build_exe(&asm, n, "dbg") {
                            Err(e) => println!("build: {e:?}"),
                            Ok(exe) => {
                                if std::env::var("KEEP_ASM").is_ok() {
                                    std::fs::copy(&exe, "/tmp/t/last.exe").ok();
                                }
                                let r = native::run_with_timeout(&exe, &rest[1..].to_vec(), std::time::Duration::from_secs(10));
                                println!("{r:?}");
                            }
                        }
                    }
                },
            }
            0
        }
        "shrink" => {
            // debug helper: sccv shrink <ID> <replay> [budget]
            let file = PathBuf::from(&rest[0]);
            let budget: usize = rest.get(1).and_then(|s| s.parse().ok()).unwrap_or(2000);
            checks::run_shrink(&ctx, &file, budget)
        }
        "gencore" => {
            checks::corecase::print_samples(&ctx, rest.first().and_then(|s| s.parse().ok()).unwrap_or(3));
            0
        }
        "gen" => {
            checks::print_samples(&ctx, rest.first().and_then(|s| s.parse().ok()).unwrap_or(3));
            0
        }
        _ => usage(),
    };
    let _ = std::env::set_current_dir(&root);
    let _ = std::fs::remove_dir_all(&scratch);
    std::process::exit(code);
}

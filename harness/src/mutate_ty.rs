//! Single, certainly ill-typed edits of a well-typed Fun program (property C15, reject side).
//! Every class is ill-typed under any reading of the language; each mutant stays parseable.

use crate::fun_ast::*;

pub struct Mutant {
    pub class: &'static str,
    pub what: String,
    pub prog: Program,
}

const PER_CLASS: usize = 3;

fn for_each_child_mut(t: &mut Tm, f: &mut dyn FnMut(&mut Tm)) {
    fn args(a: &mut Vec<Arg>, f: &mut dyn FnMut(&mut Tm)) {
        for x in a {
            if let Arg::Tm { t, .. } = x {
                f(t);
            }
        }
    }
    match t {
        Tm::Lit(_) | Tm::Var(_) => {}
        Tm::Op(a, _, b) => {
            f(a);
            f(b);
        }
        Tm::If { fst, snd, thn, els, .. } => {
            f(fst);
            if let Some(s) = snd {
                f(s);
            }
            f(thn);
            f(els);
        }
        Tm::Print { arg, next, .. } => {
            f(arg);
            f(next);
        }
        Tm::Let { bound, body, .. } => {
            f(bound);
            f(body);
        }
        Tm::Call { args: a, .. } | Tm::Ctor { args: a, .. } => args(a, f),
        Tm::Dtor { scrut, args: a, .. } => {
            f(scrut);
            args(a, f);
        }
        Tm::Case { scrut, clauses, .. } => {
            f(scrut);
            for c in clauses {
                f(&mut c.body);
            }
        }
        Tm::New { clauses } => {
            for c in clauses {
                f(&mut c.body);
            }
        }
        Tm::Label { body, .. } => f(body),
        Tm::Goto { arg, .. } => f(arg),
        Tm::Exit(a) | Tm::Paren(a) => f(a),
    }
}

/// apply `f` to the node with pre-order index `target`; returns whether it was applied
fn rewrite_at(t: &mut Tm, counter: &mut usize, target: usize, f: &dyn Fn(&Tm) -> Option<Tm>, done: &mut bool) {
    if *done {
        return;
    }
    if *counter == target {
        *counter += 1;
        if let Some(n) = f(t) {
            *t = n;
            *done = true;
        }
        return;
    }
    *counter += 1;
    for_each_child_mut(t, &mut |c| rewrite_at(c, counter, target, f, done));
}

fn count(t: &mut Tm) -> usize {
    let mut n = 1;
    for_each_child_mut(t, &mut |c| n += count(c));
    n
}

fn term_mutants(p: &Program, class: &'static str, out: &mut Vec<Mutant>, f: &dyn Fn(&Tm) -> Option<(Tm, String)>) {
    let mut found = 0;
    for d in 0..p.defs.len() {
        let n = count(&mut p.defs[d].body.clone());
        for i in 0..n {
            if found >= PER_CLASS {
                return;
            }
            let mut q = p.clone();
            let mut c = 0;
            let mut done = false;
            let what = std::cell::RefCell::new(String::new());
            rewrite_at(
                &mut q.defs[d].body,
                &mut c,
                i,
                &|t| {
                    f(t).map(|(n, w)| {
                        *what.borrow_mut() = w;
                        n
                    })
                },
                &mut done,
            );
            if done {
                found += 1;
                out.push(Mutant { class, what: format!("in {}: {}", p.defs[d].name, what.borrow()), prog: q });
            }
        }
    }
}

fn declared(p: &Program, ty: &Ty) -> bool {
    matches!(ty, Ty::Named(n, _) if p.type_decl(n).is_some())
}

/// declared parameter types of the arguments of a call/constructor/destructor node
fn param_types(p: &Program, t: &Tm) -> Option<Vec<Param>> {
    match t {
        Tm::Call { name, .. } => p.def(name).map(|d| d.params.clone()),
        Tm::Ctor { name, .. } | Tm::Dtor { name, .. } => p.find_xtor(name).map(|(_, x)| x.args.clone()),
        _ => None,
    }
}

fn args_of(t: &Tm) -> Option<&Vec<Arg>> {
    match t {
        Tm::Call { args, .. } | Tm::Ctor { args, .. } | Tm::Dtor { args, .. } => Some(args),
        _ => None,
    }
}

fn with_args(t: &Tm, new: Vec<Arg>) -> Tm {
    match t {
        Tm::Call { name, .. } => Tm::Call { name: name.clone(), args: new },
        Tm::Ctor { name, .. } => Tm::Ctor { name: name.clone(), args: new },
        Tm::Dtor { scrut, name, tyargs, .. } => {
            Tm::Dtor { scrut: scrut.clone(), name: name.clone(), tyargs: tyargs.clone(), args: new }
        }
        other => other.clone(),
    }
}

fn some_ctor(p: &Program) -> Option<String> {
    p.types.iter().find(|t| !t.codata).map(|t| t.xtors[0].name.clone())
}

pub fn all_mutants(p: &Program) -> Vec<Mutant> {
    let mut out = vec![];
    // 1 drop an argument
    term_mutants(p, "01-drop-argument", &mut out, &|t| {
        let a = args_of(t)?;
        if a.is_empty() {
            return None;
        }
        let mut b = a.clone();
        b.pop();
        Some((with_args(t, b), "dropped the last argument".into()))
    });
    // 2 add an argument
    term_mutants(p, "02-extra-argument", &mut out, &|t| {
        let a = args_of(t)?;
        let mut b = a.clone();
        b.push(Arg::Tm { t: Tm::Lit(0), lazy: false });
        Some((with_args(t, b), "added an argument".into()))
    });
    // 3 integer argument -> constructor
    if let Some(k) = some_ctor(p) {
        term_mutants(p, "03-constructor-for-integer", &mut out, &|t| {
            let ps = param_types(p, t)?;
            let a = args_of(t)?;
            let i = ps.iter().position(|q| !q.cns && q.ty == Ty::I64)?;
            let mut b = a.clone();
            if i >= b.len() {
                return None;
            }
            b[i] = Arg::Tm { t: Tm::Ctor { name: k.clone(), args: vec![] }, lazy: false };
            Some((with_args(t, b), format!("argument {i} of type i64 replaced by constructor {k}")))
        });
    }
    // 4 data/codata argument -> integer literal
    term_mutants(p, "04-integer-for-object", &mut out, &|t| {
        let ps = param_types(p, t)?;
        let a = args_of(t)?;
        let i = ps.iter().position(|q| !q.cns && declared(p, &q.ty))?;
        let mut b = a.clone();
        if i >= b.len() {
            return None;
        }
        b[i] = Arg::Tm { t: Tm::Lit(7), lazy: false };
        Some((with_args(t, b), format!("argument {i} of a declared type replaced by the literal 7")))
    });
    // 5 unbound variable
    term_mutants(p, "05-unbound-variable", &mut out, &|t| match t {
        Tm::Var(x) => Some((Tm::Var("unbound_qq".into()), format!("variable {x} replaced by an unbound name"))),
        _ => None,
    });
    // 6 unbound covariable
    term_mutants(p, "06-unbound-covariable", &mut out, &|t| match t {
        Tm::Goto { arg, name } => Some((
            Tm::Goto { name: "unbound_kk".into(), arg: arg.clone() },
            format!("goto target {name} replaced by an unbound name"),
        )),
        _ => {
            let a = args_of(t)?;
            let i = a.iter().position(|x| matches!(x, Arg::Covar(_)))?;
            let mut b = a.clone();
            b[i] = Arg::Covar("unbound_kk".into());
            Some((with_args(t, b), "covariable argument replaced by an unbound name".into()))
        }
    });
    // 7 unknown names
    term_mutants(p, "07-unknown-name", &mut out, &|t| match t {
        Tm::Call { args, .. } => Some((Tm::Call { name: "nosuchdef".into(), args: args.clone() }, "call of an undefined definition".into())),
        Tm::Ctor { args, .. } => Some((Tm::Ctor { name: "Nosuchctor".into(), args: args.clone() }, "undeclared constructor".into())),
        Tm::Dtor { scrut, tyargs, args, .. } => Some((
            Tm::Dtor { scrut: scrut.clone(), name: "nosuchdtor".into(), tyargs: tyargs.clone(), args: args.clone() },
            "undeclared destructor".into(),
        )),
        Tm::Let { var, lazy, bound, body, .. } => Some((
            Tm::Let { var: var.clone(), ty: Ty::named("Nosuchtype", vec![]), lazy: *lazy, bound: bound.clone(), body: body.clone() },
            "undeclared type in a let annotation".into(),
        )),
        _ => None,
    });
    // 8 remove a clause
    term_mutants(p, "08-missing-clause", &mut out, &|t| match t {
        Tm::Case { scrut, tyargs, clauses } if !clauses.is_empty() => {
            let mut c = clauses.clone();
            c.pop();
            Some((Tm::Case { scrut: scrut.clone(), tyargs: tyargs.clone(), clauses: c }, "removed a clause of a case".into()))
        }
        Tm::New { clauses } if !clauses.is_empty() => {
            let mut c = clauses.clone();
            c.pop();
            Some((Tm::New { clauses: c }, "removed a clause of a new".into()))
        }
        _ => None,
    });
    // 9 extra clause of another type / unknown xtor
    term_mutants(p, "09-extra-clause", &mut out, &|t| match t {
        Tm::Case { scrut, tyargs, clauses } if !clauses.is_empty() => {
            let mut c = clauses.clone();
            let own: Vec<&String> = clauses.iter().map(|x| &x.xtor).collect();
            let other = p
                .types
                .iter()
                .filter(|d| !d.codata)
                .flat_map(|d| d.xtors.iter())
                .find(|x| !own.contains(&&x.name));
            let (name, nb) = match other {
                Some(x) => (x.name.clone(), x.args.len()),
                None => ("Zzzextra".to_string(), 0),
            };
            c.push(Clause { xtor: name.clone(), binders: (0..nb).map(|i| format!("eb{i}")).collect(), body: clauses[0].body.clone() });
            // the body of the copied clause may mention the first clause's binders; use a closed body
            let last = c.len() - 1;
            c[last].body = Tm::Exit(Box::new(Tm::Lit(0)));
            Some((Tm::Case { scrut: scrut.clone(), tyargs: tyargs.clone(), clauses: c }, format!("added a clause for {name}")))
        }
        Tm::New { clauses } if !clauses.is_empty() => {
            let mut c = clauses.clone();
            c.push(Clause { xtor: "zzzextra".into(), binders: vec![], body: Tm::Exit(Box::new(Tm::Lit(0))) });
            Some((Tm::New { clauses: c }, "added a clause for an undeclared destructor".into()))
        }
        _ => None,
    });
    // 10 duplicate a clause
    term_mutants(p, "10-duplicate-clause", &mut out, &|t| match t {
        Tm::Case { scrut, tyargs, clauses } if !clauses.is_empty() => {
            let mut c = clauses.clone();
            c.push(clauses[0].clone());
            Some((Tm::Case { scrut: scrut.clone(), tyargs: tyargs.clone(), clauses: c }, "duplicated a clause of a case".into()))
        }
        Tm::New { clauses } if !clauses.is_empty() => {
            let mut c = clauses.clone();
            c.push(clauses[0].clone());
            Some((Tm::New { clauses: c }, "duplicated a clause of a new".into()))
        }
        _ => None,
    });
    // 11 wrong number of binders
    for more in [true, false] {
        term_mutants(p, if more { "11-extra-binder" } else { "11-missing-binder" }, &mut out, &|t| {
            let edit = |clauses: &Vec<Clause>| -> Option<Vec<Clause>> {
                let i = if more { 0 } else { clauses.iter().position(|c| !c.binders.is_empty())? };
                let mut c = clauses.clone();
                if more {
                    c.get_mut(i)?.binders.push("extra_bb".into());
                } else {
                    // the body may use the binder: replace it by a closed term
                    c[i].binders.pop();
                    c[i].body = Tm::Exit(Box::new(Tm::Lit(0)));
                }
                Some(c)
            };
            match t {
                Tm::Case { scrut, tyargs, clauses } => Some((
                    Tm::Case { scrut: scrut.clone(), tyargs: tyargs.clone(), clauses: edit(clauses)? },
                    "changed the number of binders of a case clause".into(),
                )),
                Tm::New { clauses } => Some((Tm::New { clauses: edit(clauses)? }, "changed the number of binders of a new clause".into())),
                _ => None,
            }
        });
    }
    // 12 wrong number of type arguments
    for more in [true, false] {
        term_mutants(p, if more { "12-extra-type-argument" } else { "12-missing-type-argument" }, &mut out, &|t| {
            let edit = |ta: &Vec<Ty>| -> Option<Vec<Ty>> {
                let mut v = ta.clone();
                if more {
                    v.push(Ty::I64);
                } else {
                    v.pop()?;
                }
                Some(v)
            };
            match t {
                Tm::Case { scrut, tyargs, clauses } if !clauses.is_empty() => Some((
                    Tm::Case { scrut: scrut.clone(), tyargs: edit(tyargs)?, clauses: clauses.clone() },
                    "changed the number of type arguments of a case".into(),
                )),
                Tm::Dtor { scrut, name, tyargs, args } => Some((
                    Tm::Dtor { scrut: scrut.clone(), name: name.clone(), tyargs: edit(tyargs)?, args: args.clone() },
                    "changed the number of type arguments of a destructor".into(),
                )),
                Tm::Let { var, ty: Ty::Named(n, ta), lazy, bound, body } => Some((
                    Tm::Let { var: var.clone(), ty: Ty::Named(n.clone(), edit(ta)?), lazy: *lazy, bound: bound.clone(), body: body.clone() },
                    "changed the number of type arguments of an annotation".into(),
                )),
                _ => None,
            }
        });
    }
    // 13 variable (or term) where a covariable is required
    term_mutants(p, "13-variable-for-covariable", &mut out, &|t| match t {
        Tm::Goto { arg, .. } => Some((
            Tm::Let {
                var: "vv_prd".into(),
                ty: Ty::I64,
                lazy: false,
                bound: Box::new(Tm::Lit(0)),
                body: Box::new(Tm::Goto { name: "vv_prd".into(), arg: arg.clone() }),
            },
            "goto to a variable".into(),
        )),
        _ => {
            let a = args_of(t)?;
            let i = a.iter().position(|x| matches!(x, Arg::Covar(_)))?;
            let mut b = a.clone();
            b[i] = Arg::Tm { t: Tm::Lit(0), lazy: false };
            Some((with_args(t, b), "term passed for a covariable parameter".into()))
        }
    });
    // 14 covariable where a term is required
    term_mutants(p, "14-covariable-for-variable", &mut out, &|t| {
        let ps = param_types(p, t)?;
        let a = args_of(t)?;
        let i = ps.iter().position(|q| !q.cns)?;
        if i >= a.len() {
            return None;
        }
        let mut b = a.clone();
        b[i] = Arg::Tm { t: Tm::Var("kk_cns".into()), lazy: false };
        Some((
            Tm::Label { name: "kk_cns".into(), body: Box::new(with_args(t, b)) },
            "label used as a term argument".into(),
        ))
    });
    // 15 duplicate declarations
    if let Some(d) = p.defs.iter().find(|d| d.name != "main") {
        let mut q = p.clone();
        q.defs.push(d.clone());
        q.order.clear();
        out.push(Mutant { class: "15-duplicate-definition", what: format!("definition {} declared twice", d.name), prog: q });
    }
    if let Some(t) = p.types.first() {
        let mut q = p.clone();
        let mut t2 = t.clone();
        // fresh xtor names so that only the type name clashes
        for x in &mut t2.xtors {
            x.name.push_str("Dup");
        }
        q.types.push(t2);
        q.order.clear();
        out.push(Mutant { class: "15-duplicate-type", what: format!("type {} declared twice", t.name), prog: q });
    }
    if let Some(ti) = p.types.iter().position(|t| !t.xtors.is_empty()) {
        let mut q = p.clone();
        let x = q.types[ti].xtors[0].clone();
        q.types[ti].xtors.push(x);
        q.order.clear();
        out.push(Mutant { class: "15-duplicate-xtor", what: format!("xtor {} declared twice", p.types[ti].xtors[0].name), prog: q });
    }
    if let Some(di) = p.defs.iter().position(|d| !d.params.is_empty()) {
        let mut q = p.clone();
        let prm = q.defs[di].params[0].clone();
        q.defs[di].params.push(prm);
        q.order.clear();
        out.push(Mutant {
            class: "15-duplicate-parameter",
            what: format!("parameter {} of {} declared twice", p.defs[di].params[0].name, p.defs[di].name),
            prog: q,
        });
    }
    // 15b a variable and a covariable of the same name in one parameter list (the name is used
    // in the body in the chirality of the rightmost binding, so only the duplicate is wrong)
    {
        for (k, (params, body, what)) in [
            (
                vec![Param { name: "dd".into(), cns: true, ty: Ty::I64 }, Param { name: "dd".into(), cns: false, ty: Ty::I64 }],
                Tm::Var("dd".into()),
                "covariable then variable of the same name",
            ),
            (
                vec![Param { name: "dd".into(), cns: false, ty: Ty::I64 }, Param { name: "dd".into(), cns: true, ty: Ty::I64 }],
                Tm::Goto { name: "dd".into(), arg: Box::new(Tm::Lit(1)) },
                "variable then covariable of the same name",
            ),
        ]
        .into_iter()
        .enumerate()
        {
            let mut q = p.clone();
            let idx = q.defs.len();
            q.defs.push(Def { name: format!("zz_dupchi{k}"), params, ret: Ty::I64, body });
            if !q.order.is_empty() {
                q.order.push(Decl::Def(idx));
            }
            out.push(Mutant { class: "15-duplicate-parameter-mixed-chirality", what: what.into(), prog: q });
        }
    }
    // 19 the same binder twice in one clause
    term_mutants(p, "19-duplicate-binder", &mut out, &|t| {
        let edit = |clauses: &Vec<Clause>| -> Option<Vec<Clause>> {
            let i = clauses.iter().position(|c| c.binders.len() >= 2)?;
            let mut c = clauses.clone();
            let first = c[i].binders[0].clone();
            c[i].binders[1] = first;
            // the body may use the renamed binder: replace it by a closed term
            c[i].body = Tm::Exit(Box::new(Tm::Lit(0)));
            Some(c)
        };
        match t {
            Tm::Case { scrut, tyargs, clauses } => {
                Some((Tm::Case { scrut: scrut.clone(), tyargs: tyargs.clone(), clauses: edit(clauses)? }, "a clause of a case binds the same name twice".into()))
            }
            Tm::New { clauses } => Some((Tm::New { clauses: edit(clauses)? }, "a clause of a new binds the same name twice".into())),
            _ => None,
        }
    });
    // 16 wrong annotated type / constructor of another type
    term_mutants(p, "16-wrong-annotation", &mut out, &|t| match t {
        Tm::Let { var, ty, lazy, bound, body } => {
            let mut inner: &Tm = bound;
            while let Tm::Paren(i) = inner {
                inner = i;
            }
            match (ty, inner) {
                (Ty::Named(..), Tm::Ctor { .. } | Tm::New { .. }) => Some((
                    Tm::Let { var: var.clone(), ty: Ty::I64, lazy: *lazy, bound: bound.clone(), body: body.clone() },
                    "annotation of a constructor/new binding changed to i64".into(),
                )),
                (Ty::I64, Tm::Lit(_) | Tm::Op(..)) => {
                    let d = p.types.first()?;
                    let nty = Ty::Named(d.name.clone(), d.params.iter().map(|_| Ty::I64).collect());
                    Some((
                        Tm::Let { var: var.clone(), ty: nty, lazy: *lazy, bound: bound.clone(), body: body.clone() },
                        "annotation of an integer binding changed to a declared type".into(),
                    ))
                }
                _ => None,
            }
        }
        _ => None,
    });
    // 17 a constructor of a *different* data type whose parameter count matches the expected type's
    // type arguments (so that "name + printed type arguments" coincide); the other type's instance
    // at those arguments is made to exist by a helper definition mentioning it
    {
        let other_nullary = |t: &str, n: usize| -> Option<(String, String)> {
            p.types
                .iter()
                .filter(|d| !d.codata && d.name != t && d.params.len() == n)
                .find_map(|d| d.xtors.iter().find(|x| x.args.is_empty()).map(|x| (d.name.clone(), x.name.clone())))
        };
        let is_data = |n: &str| p.type_decl(n).map_or(false, |d| !d.codata);
        let insts = std::cell::RefCell::new(Vec::<(String, Vec<Ty>)>::new());
        let mut tmp = vec![];
        term_mutants(p, "17-constructor-of-other-type", &mut tmp, &|t| match t {
            Tm::Let { var, ty: Ty::Named(n, ta), lazy, bound, body } if is_data(n) => {
                let mut inner: &Tm = bound;
                while let Tm::Paren(i) = inner {
                    inner = i;
                }
                if !matches!(inner, Tm::Ctor { .. }) {
                    return None;
                }
                let (ot, ok) = other_nullary(n, ta.len())?;
                insts.borrow_mut().push((ot.clone(), ta.clone()));
                Some((
                    Tm::Let {
                        var: var.clone(),
                        ty: Ty::Named(n.clone(), ta.clone()),
                        lazy: *lazy,
                        bound: Box::new(Tm::Ctor { name: ok.clone(), args: vec![] }),
                        body: body.clone(),
                    },
                    format!("binding of type {n} bound to constructor {ok} of type {ot}"),
                ))
            }
            Tm::Call { .. } => {
                let ps = param_types(p, t)?;
                let a = args_of(t)?;
                let (i, n, ta, ot, ok) = ps.iter().enumerate().find_map(|(i, q)| match &q.ty {
                    Ty::Named(n, ta) if !q.cns && is_data(n) && i < a.len() => {
                        other_nullary(n, ta.len()).map(|(ot, ok)| (i, n.clone(), ta.clone(), ot, ok))
                    }
                    _ => None,
                })?;
                let mut b = a.clone();
                b[i] = Arg::Tm { t: Tm::Ctor { name: ok.clone(), args: vec![] }, lazy: false };
                insts.borrow_mut().push((ot.clone(), ta));
                Some((with_args(t, b), format!("argument {i} of type {n} replaced by constructor {ok} of type {ot}")))
            }
            _ => None,
        });
        let mut insts = insts.into_inner();
        // definition bodies
        for (di, d) in p.defs.iter().enumerate() {
            if tmp.len() >= 2 * PER_CLASS {
                break;
            }
            let mut inner: &Tm = &d.body;
            while let Tm::Paren(i) = inner {
                inner = i;
            }
            if let (Ty::Named(n, ta), Tm::Ctor { .. }) = (&d.ret, inner) {
                if !is_data(n) {
                    continue;
                }
                if let Some((ot, ok)) = other_nullary(n, ta.len()) {
                    let mut q = p.clone();
                    q.defs[di].body = Tm::Ctor { name: ok.clone(), args: vec![] };
                    tmp.push(Mutant {
                        class: "17-constructor-of-other-type",
                        what: format!("body of {} (type {n}) replaced by constructor {ok} of type {ot}", d.name),
                        prog: q,
                    });
                    insts.push((ot, ta.clone()));
                }
            }
        }
        for (k, (mut m, (ot, ta))) in tmp.into_iter().zip(insts).enumerate() {
            let idx = m.prog.defs.len();
            m.prog.defs.push(Def {
                name: format!("zz_inst{k}"),
                params: vec![Param { name: "p".into(), cns: false, ty: Ty::Named(ot, ta) }],
                ret: Ty::I64,
                body: Tm::Lit(0),
            });
            if !m.prog.order.is_empty() {
                m.prog.order.push(Decl::Def(idx));
            }
            out.push(m);
        }
    }
    // 18 a destructor of a different codata type with the same number of type parameters
    term_mutants(p, "18-destructor-of-other-type", &mut out, &|t| match t {
        Tm::Dtor { scrut, name, tyargs, .. } => {
            // only scrutinees with a definite type (a jump or exit would fit any type)
            let mut inner: &Tm = scrut;
            while let Tm::Paren(i) = inner {
                inner = i;
            }
            if !matches!(inner, Tm::Var(_) | Tm::Call { .. } | Tm::Dtor { .. } | Tm::New { .. }) {
                return None;
            }
            let (own, _) = p.find_xtor(name)?;
            let own = own.name.clone();
            let (ot, od) = p
                .types
                .iter()
                .filter(|d| d.codata && d.name != own && d.params.len() == tyargs.len())
                .find_map(|d| d.xtors.iter().find(|x| x.args.is_empty()).map(|x| (d.name.clone(), x.name.clone())))?;
            Some((
                Tm::Dtor { scrut: scrut.clone(), name: od.clone(), tyargs: tyargs.clone(), args: vec![] },
                format!("destructor {name} of {own} replaced by {od} of {ot}"),
            ))
        }
        _ => None,
    });
    // 20 the same covariable passed for two consumer parameters of different types: whichever of
    // the two uses is ill-typed (the first or the second), the call must be rejected
    {
        let other = match p.types.iter().find(|d| !d.codata && !d.xtors.is_empty()) {
            Some(d) => Ty::Named(d.name.clone(), d.params.iter().map(|_| Ty::I64).collect()),
            None => Ty::I64,
        };
        if other != Ty::I64 && !p.defs.iter().any(|d| d.name.starts_with("zz_two")) {
            for wrong_first in [false, true] {
                let mut q = p.clone();
                let (t1, t2) = if wrong_first { (other.clone(), Ty::I64) } else { (Ty::I64, other.clone()) };
                let (body_k, _) = if wrong_first { ("h", "k") } else { ("k", "h") };
                q.defs.push(Def {
                    name: "zz_two".into(),
                    params: vec![
                        Param { name: "n".into(), cns: false, ty: Ty::I64 },
                        Param { name: "k".into(), cns: true, ty: t1 },
                        Param { name: "h".into(), cns: true, ty: t2 },
                    ],
                    ret: Ty::I64,
                    body: Tm::Goto { name: body_k.into(), arg: Box::new(Tm::Var("n".into())) },
                });
                q.defs.push(Def {
                    name: "zz_twice".into(),
                    params: vec![Param { name: "n".into(), cns: false, ty: Ty::I64 }],
                    ret: Ty::I64,
                    body: Tm::Label {
                        name: "zk".into(),
                        body: Box::new(Tm::Call {
                            name: "zz_two".into(),
                            args: vec![Arg::Tm { t: Tm::Var("n".into()), lazy: false }, Arg::Covar("zk".into()), Arg::Covar("zk".into())],
                        }),
                    },
                });
                q.order.clear();
                out.push(Mutant {
                    class: "20-covariable-twice-at-different-types",
                    what: format!(
                        "covariable zk: cns i64 passed for two consumer parameters of different types; the {} use is ill-typed",
                        if wrong_first { "first" } else { "second" }
                    ),
                    prog: q,
                });
            }
        }
    }
    out
}

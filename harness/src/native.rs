//! Native execution path: NASM -> GAS transliteration (syntax only), `as`, `gcc`, run.

use std::path::{Path, PathBuf};
use std::process::{Command, Stdio};
use std::sync::Mutex;
use std::time::{Duration, Instant};

/// Syntax-only rewrite of the printed NASM text into GNU as (intel syntax).
pub fn nasm_to_gas(nasm: &str) -> String {
    let mut out = String::with_capacity(nasm.len() + 64);
    out.push_str(".intel_syntax noprefix\n");
    for line in nasm.lines() {
        let t = line.trim_start();
        let indent = &line[..line.len() - t.len()];
        if t.starts_with(';') {
            out.push_str(indent);
            out.push('#');
            out.push_str(&t[1..]);
        } else if t.starts_with("section .note.GNU-stack") {
            out.push_str(".section .note.GNU-stack,\"\",@progbits");
        } else if t == "section .text" {
            out.push_str(".text");
        } else if let Some(r) = t.strip_prefix("extern ") {
            out.push_str(".extern ");
            out.push_str(r);
        } else if let Some(r) = t.strip_prefix("global ") {
            out.push_str(".globl ");
            out.push_str(r);
        } else if let Some(r) = t.strip_prefix("jmp near ") {
            out.push_str(indent);
            out.push_str("{disp32} jmp ");
            out.push_str(r);
        } else {
            let mut l = t.replace("[rel ", "[rip + ");
            if l.contains("qword [") {
                l = l.replace("qword [", "qword ptr [");
            }
            out.push_str(indent);
            out.push_str(&l);
        }
        out.push('\n');
    }
    out
}

#[derive(Debug, Clone, PartialEq, Eq)]
pub struct RunResult {
    pub stdout: Vec<u8>,
    pub stderr: Vec<u8>,
    /// Some(status) on normal exit
    pub code: Option<i32>,
    pub signal: Option<i32>,
    pub timed_out: bool,
}

pub fn run_with_timeout(exe: &Path, args: &[String], timeout: Duration) -> std::io::Result<RunResult> {
    use std::io::Read;
    use std::os::unix::process::ExitStatusExt;
    let mut child = Command::new(exe)
        .args(args)
        .stdin(Stdio::null())
        .stdout(Stdio::piped())
        .stderr(Stdio::piped())
        .spawn()?;
    let mut so = child.stdout.take().unwrap();
    let mut se = child.stderr.take().unwrap();
    let h1 = std::thread::spawn(move || {
        let mut v = vec![];
        let _ = so.by_ref().take(1 << 20).read_to_end(&mut v);
        v
    });
    let h2 = std::thread::spawn(move || {
        let mut v = vec![];
        let _ = se.by_ref().take(1 << 16).read_to_end(&mut v);
        v
    });
    let start = Instant::now();
    let mut timed_out = false;
    let status = loop {
        if let Some(st) = child.try_wait()? {
            break st;
        }
        if start.elapsed() > timeout {
            timed_out = true;
            let _ = child.kill();
            break child.wait()?;
        }
        std::thread::sleep(Duration::from_micros(300));
    };
    let stdout = h1.join().unwrap_or_default();
    let stderr = h2.join().unwrap_or_default();
    Ok(RunResult { stdout, stderr, code: status.code(), signal: status.signal(), timed_out })
}

pub struct Toolchain {
    pub dir: PathBuf,
    drivers: Mutex<std::collections::HashMap<(usize, Option<usize>), PathBuf>>,
    io_obj: Mutex<Option<PathBuf>>,
}

#[derive(Debug)]
pub enum NativeError {
    /// the assembler rejected the file (first lines of its diagnostics)
    Assemble(String),
    /// infrastructure problem (tool missing, link failure, io error)
    Infra(String),
}

fn cmd_output(c: &mut Command) -> Result<std::process::Output, NativeError> {
    c.output().map_err(|e| NativeError::Infra(format!("{:?}: {e}", c.get_program())))
}

impl Toolchain {
    /// `dir` must be the process's current directory (the driver writes below the cwd).
    pub fn new(dir: PathBuf) -> Self {
        Toolchain { dir, drivers: Mutex::new(Default::default()), io_obj: Mutex::new(None) }
    }

    fn io_object(&self) -> Result<PathBuf, NativeError> {
        let mut g = self.io_obj.lock().unwrap();
        if let Some(p) = &*g {
            return Ok(p.clone());
        }
        // the repository's own function instantiates the runtime below the current directory
        let src = driver::generate_io_runtime();
        let src = std::fs::canonicalize(&src).map_err(|e| NativeError::Infra(e.to_string()))?;
        let obj = self.dir.join("io.o");
        let o = cmd_output(Command::new("gcc").args(["-O1", "-c", "-o"]).arg(&obj).arg(&src))?;
        if !o.status.success() {
            return Err(NativeError::Infra(format!(
                "gcc io.c: {}",
                String::from_utf8_lossy(&o.stderr)
            )));
        }
        *g = Some(obj.clone());
        Ok(obj)
    }

    fn driver_object(&self, nargs: usize, heap_mb: Option<usize>) -> Result<PathBuf, NativeError> {
        let mut g = self.drivers.lock().unwrap();
        if let Some(p) = g.get(&(nargs, heap_mb)) {
            return Ok(p.clone());
        }
        let src = driver::generate_c_driver(nargs, heap_mb);
        let src = std::fs::canonicalize(&src).map_err(|e| NativeError::Infra(e.to_string()))?;
        let obj = self.dir.join(format!("driver{nargs}_{}.o", heap_mb.unwrap_or(0)));
        let o = cmd_output(Command::new("gcc").args(["-O1", "-w", "-c", "-o"]).arg(&obj).arg(&src))?;
        if !o.status.success() {
            return Err(NativeError::Infra(format!(
                "gcc driver: {}",
                String::from_utf8_lossy(&o.stderr)
            )));
        }
        g.insert((nargs, heap_mb), obj.clone());
        Ok(obj)
    }

    /// assemble the (NASM) text with GNU as; returns the object path
    pub fn assemble_x86(&self, nasm: &str, tag: &str) -> Result<PathBuf, NativeError> {
        let s = self.dir.join(format!("{tag}.s"));
        let o = self.dir.join(format!("{tag}.o"));
        std::fs::write(&s, nasm_to_gas(nasm)).map_err(|e| NativeError::Infra(e.to_string()))?;
        let out = cmd_output(Command::new("as").args(["--64", "-o"]).arg(&o).arg(&s))?;
        let _ = std::fs::remove_file(&s);
        if !out.status.success() {
            let msg = String::from_utf8_lossy(&out.stderr);
            let short: Vec<&str> = msg.lines().take(4).collect();
            return Err(NativeError::Assemble(short.join(" | ")));
        }
        Ok(o)
    }

    pub fn link(&self, obj: &Path, nargs: usize, heap_mb: Option<usize>, tag: &str) -> Result<PathBuf, NativeError> {
        let drv = self.driver_object(nargs, heap_mb)?;
        let io = self.io_object()?;
        let exe = self.dir.join(format!("{tag}.exe"));
        let out = cmd_output(Command::new("gcc").arg("-o").arg(&exe).arg(&drv).arg(&io).arg(obj))?;
        if !out.status.success() {
            return Err(NativeError::Infra(format!(
                "link: {}",
                String::from_utf8_lossy(&out.stderr).lines().take(4).collect::<Vec<_>>().join(" | ")
            )));
        }
        Ok(exe)
    }

    pub fn build_exe(&self, nasm: &str, nargs: usize, tag: &str) -> Result<PathBuf, NativeError> {
        let obj = self.assemble_x86(nasm, tag)?;
        let exe = self.link(&obj, nargs, None, tag);
        let _ = std::fs::remove_file(&obj);
        exe
    }

    /// assemble AArch64 text with llvm-mc (only acceptance is checked)
    pub fn assemble_a64(&self, text: &str, tag: &str) -> Result<Vec<u8>, NativeError> {
        let s = self.dir.join(format!("{tag}.a64.s"));
        let o = self.dir.join(format!("{tag}.a64.o"));
        std::fs::write(&s, format!("{text}\n")).map_err(|e| NativeError::Infra(e.to_string()))?;
        let out = cmd_output(
            Command::new("llvm-mc")
                .args(["--arch=aarch64", "--filetype=obj", "-o"])
                .arg(&o)
                .arg(&s),
        )?;
        let _ = std::fs::remove_file(&s);
        if !out.status.success() {
            let msg = String::from_utf8_lossy(&out.stderr);
            let short: Vec<&str> = msg.lines().take(4).collect();
            return Err(NativeError::Assemble(short.join(" | ")));
        }
        let bytes = std::fs::read(&o).map_err(|e| NativeError::Infra(e.to_string()))?;
        let _ = std::fs::remove_file(&o);
        Ok(bytes)
    }
}

//! Thin wrappers around the compiler's stages (the code under test), each under `catch_unwind`.

use printer::Print;
use std::cell::RefCell;
use std::panic::{AssertUnwindSafe, catch_unwind};
use std::sync::{Mutex, Once};

thread_local! {
    static LAST_PANIC: RefCell<Option<String>> = const { RefCell::new(None) };
    static QUIET: RefCell<bool> = const { RefCell::new(false) };
}

static HOOK: Once = Once::new();

/// `axcut2backend::fresh_labels::COUNTER` is an unsynchronised `static mut`: all code generation
/// is serialised by this lock.
pub static CODEGEN_LOCK: Mutex<()> = Mutex::new(());

pub fn install_panic_hook() {
    HOOK.call_once(|| {
        let default = std::panic::take_hook();
        std::panic::set_hook(Box::new(move |info| {
            let quiet = QUIET.with(|q| *q.borrow());
            let msg = if let Some(s) = info.payload().downcast_ref::<&str>() {
                s.to_string()
            } else if let Some(s) = info.payload().downcast_ref::<String>() {
                s.clone()
            } else {
                "panic".to_string()
            };
            let loc = info
                .location()
                .map(|l| format!("{}:{}", l.file(), l.line()))
                .unwrap_or_default();
            LAST_PANIC.with(|p| *p.borrow_mut() = Some(format!("{msg} @ {loc}")));
            if !quiet {
                default(info);
            }
        }));
    });
}

/// Run `f`, turning a panic into `Err(message @ location)`.
pub fn guarded<T>(f: impl FnOnce() -> T) -> Result<T, String> {
    install_panic_hook();
    QUIET.with(|q| *q.borrow_mut() = true);
    let r = catch_unwind(AssertUnwindSafe(f));
    QUIET.with(|q| *q.borrow_mut() = false);
    match r {
        Ok(v) => Ok(v),
        Err(_) => Err(LAST_PANIC
            .with(|p| p.borrow_mut().take())
            .unwrap_or_else(|| "panic".to_string())),
    }
}

/// the documented capacity assertions of the backends - but only where the program is actually
/// near the capacity (see `codegen`): an assertion firing for a small program is a defect
pub fn is_capacity_panic(msg: &str) -> bool {
    !msg.starts_with(UNJUSTIFIED) && (msg.contains("Out of temporaries") || msg.contains("Out of registers"))
}

const UNJUSTIFIED: &str = "capacity assertion without cause";

/// x86-64: 6 variables in registers + 255 spill slots; AArch64: 13 + 255 slots; RISC-V: 14
/// variables, and scratch temporaries are taken right after the environment
pub fn capacity_margin(arch: Arch) -> usize {
    match arch {
        Arch::X86 | Arch::A64 => 100,
        Arch::Rv => 12,
    }
}

#[derive(Debug, Clone)]
pub enum StageError {
    Parse(String),
    Check(String),
    Panic { stage: &'static str, msg: String },
}

impl std::fmt::Display for StageError {
    fn fmt(&self, f: &mut std::fmt::Formatter<'_>) -> std::fmt::Result {
        match self {
            StageError::Parse(s) => write!(f, "parse error: {s}"),
            StageError::Check(s) => write!(f, "type error: {s}"),
            StageError::Panic { stage, msg } => write!(f, "panic in {stage}: {msg}"),
        }
    }
}

pub fn parse(text: &str) -> Result<fun::syntax::program::Program, StageError> {
    match guarded(|| fun::parser::parse_module(text)) {
        Err(msg) => Err(StageError::Panic { stage: "parse", msg }),
        Ok(Err(e)) => Err(StageError::Parse(format!("{e:?}"))),
        Ok(Ok(p)) => Ok(p),
    }
}

pub fn check(
    p: fun::syntax::program::Program,
) -> Result<fun::syntax::program::CheckedProgram, StageError> {
    match guarded(move || p.check()) {
        Err(msg) => Err(StageError::Panic { stage: "check", msg }),
        Ok(Err(e)) => Err(StageError::Check(format!("{e:?}"))),
        Ok(Ok(c)) => Ok(c),
    }
}

pub fn to_core(
    c: fun::syntax::program::CheckedProgram,
) -> Result<core_lang::syntax::Prog, StageError> {
    guarded(move || fun2core::program::compile_prog(c))
        .map_err(|msg| StageError::Panic { stage: "fun2core", msg })
}

pub fn focus(p: core_lang::syntax::Prog) -> Result<core_lang::syntax::FsProg, StageError> {
    guarded(move || p.focus()).map_err(|msg| StageError::Panic { stage: "focus", msg })
}

pub fn uniquify(mut p: core_lang::syntax::Prog) -> Result<core_lang::syntax::Prog, StageError> {
    guarded(move || {
        p.uniquify();
        p
    })
    .map_err(|msg| StageError::Panic { stage: "uniquify", msg })
}

pub fn shrink(p: core_lang::syntax::FsProg) -> Result<axcut::syntax::Prog, StageError> {
    guarded(move || core2axcut::program::shrink_prog(p))
        .map_err(|msg| StageError::Panic { stage: "shrink", msg })
}

pub fn linearize(mut p: axcut::syntax::Prog) -> Result<axcut::syntax::Prog, StageError> {
    guarded(move || {
        p.linearize();
        p
    })
    .map_err(|msg| StageError::Panic { stage: "linearize", msg })
}

#[derive(Clone, Copy, Debug, PartialEq, Eq, Hash)]
pub enum Arch {
    X86,
    A64,
    Rv,
}

impl Arch {
    pub fn name(self) -> &'static str {
        match self {
            Arch::X86 => "x86_64",
            Arch::A64 => "aarch64",
            Arch::Rv => "rv64",
        }
    }
}

/// Full routine text for a linearized program, as the driver would write it to the `.asm` file.
pub fn codegen(p: axcut::syntax::Prog, arch: Arch) -> Result<(String, usize), StageError> {
    let width = crate::tc_axcut::max_env_linear(&p);
    let prints = has_print(&p);
    codegen_inner(p, arch).map_err(|e| match e {
        // the RISC-V backend documents only `print` as not implemented
        StageError::Panic { stage, msg } if arch == Arch::Rv && msg.contains("not implemented in RISC-V backend") && !prints => StageError::Panic {
            stage,
            msg: format!("the RISC-V backend refuses a print-free program: {}", msg.replace("not implemented", "not-implemented")),
        },
        StageError::Panic { stage, msg } if is_capacity_panic(&msg) && width < capacity_margin(arch) => StageError::Panic {
            stage,
            msg: format!("{UNJUSTIFIED}: the program never has more than {width} live variables, yet {}: {msg}", arch.name()),
        },
        e => e,
    })
}

pub fn has_print(p: &axcut::syntax::Prog) -> bool {
    use axcut::syntax::Statement as S;
    fn go(s: &S) -> bool {
        match s {
            S::PrintI64(_) => true,
            S::Substitute(x) => go(&x.next),
            S::Let(x) => go(&x.next),
            S::Literal(x) => go(&x.next),
            S::Op(x) => go(&x.next),
            S::Create(x) => go(&x.next) || x.clauses.iter().any(|c| go(&c.body)),
            S::Switch(x) => x.clauses.iter().any(|c| go(&c.body)),
            S::IfC(x) => go(&x.thenc) || go(&x.elsec),
            S::Call(_) | S::Invoke(_) | S::Exit(_) => false,
        }
    }
    p.defs.iter().any(|d| go(&d.body))
}

fn codegen_inner(p: axcut::syntax::Prog, arch: Arch) -> Result<(String, usize), StageError> {
    // only the instruction selection needs the lock (fresh label counter); printing the text is
    // done outside of it
    macro_rules! select {
        ($backend:ty) => {{
            let _g = CODEGEN_LOCK.lock().unwrap_or_else(|e| e.into_inner());
            guarded(move || axcut2backend::coder::compile::<$backend, _, _, _>(p))
        }};
    }
    let r = match arch {
        Arch::X86 => select!(axcut2x86_64::Backend).and_then(|code| {
            guarded(move || {
                let n = code.number_of_arguments;
                (axcut2x86_64::into_routine::into_x86_64_routine(code).print_to_string(None), n)
            })
        }),
        Arch::A64 => select!(axcut2aarch64::Backend).and_then(|code| {
            guarded(move || {
                let n = code.number_of_arguments;
                (axcut2aarch64::into_routine::into_aarch64_routine(code).print_to_string(None), n)
            })
        }),
        Arch::Rv => select!(axcut2rv64::Backend).and_then(|code| {
            guarded(move || {
                let n = code.number_of_arguments;
                (axcut2rv64::into_routine::into_rv64_routine(code), n)
            })
        }),
    };
    r.map_err(|msg| StageError::Panic { stage: "codegen", msg })
}

pub struct Compiled {
    pub core: core_lang::syntax::Prog,
    pub focused: core_lang::syntax::FsProg,
    pub shrunk: axcut::syntax::Prog,
    pub linear: axcut::syntax::Prog,
}

/// text -> all intermediate programs
pub fn front(text: &str) -> Result<Compiled, StageError> {
    let parsed = parse(text)?;
    let checked = check(parsed)?;
    let core = to_core(checked)?;
    let focused = focus(core.clone())?;
    let shrunk = shrink(focused.clone())?;
    let linear = linearize(shrunk.clone())?;
    Ok(Compiled { core, focused, shrunk, linear })
}

//! Reference interpreter for Fun (a CEK machine over the harness's own AST).
//!
//! Semantics (DESIGN.md 3.1): wrapping 64-bit arithmetic, truncating division (undefined on
//! division by zero and MIN / -1), eager integers and data evaluated left to right, codata by
//! name (a codata-typed term in a binding position becomes a thunk that is re-run at every
//! use and is only ever run against a destructor), first-class labels, immediate exit.

use crate::fun_ast::*;
use std::rc::Rc;

#[derive(Clone)]
pub enum Val<'p> {
    Int(i64),
    Data(&'p str, Rc<Vec<Val<'p>>>),
    Thunk(&'p Tm, Env<'p>),
    Kont(K<'p>),
}

pub struct EnvNode<'p> {
    name: &'p str,
    val: Val<'p>,
    next: Env<'p>,
}
pub type Env<'p> = Option<Rc<EnvNode<'p>>>;

fn bind<'p>(env: &Env<'p>, name: &'p str, val: Val<'p>) -> Env<'p> {
    Some(Rc::new(EnvNode { name, val, next: env.clone() }))
}

fn lookup<'p>(env: &Env<'p>, name: &str) -> Option<Val<'p>> {
    let mut cur = env;
    while let Some(n) = cur {
        if n.name == name {
            return Some(n.val.clone());
        }
        cur = &n.next;
    }
    None
}

pub type K<'p> = Rc<KNode<'p>>;

#[derive(Clone)]
pub enum ArgsKind<'p> {
    Ctor(&'p str),
    Call(&'p Def),
    /// resolving a pending destructor continuation: after the arguments, resolve `inner` and go on
    /// with `then`
    Dtor { name: &'p str, inner: K<'p>, then: Rc<Then<'p>> },
}

pub enum Then<'p> {
    Force(Val<'p>),
    ApplyNew(&'p [Clause], Env<'p>),
    EnterCall(&'p Def, Rc<Vec<Val<'p>>>),
    BindLabel(&'p str, &'p Tm, Env<'p>),
    Wrap { name: &'p str, vals: Rc<Vec<Val<'p>>>, outer: Rc<Then<'p>> },
}

pub enum KNode<'p> {
    Halt,
    ExitK,
    Op1 { op: BinOp, snd: &'p Tm, env: Env<'p>, k: K<'p> },
    Op2 { op: BinOp, a: i64, k: K<'p> },
    If1 { node: &'p Tm, env: Env<'p>, k: K<'p> },
    If2 { node: &'p Tm, a: i64, env: Env<'p>, k: K<'p> },
    PrintK { newline: bool, next: &'p Tm, env: Env<'p>, k: K<'p> },
    LetK { var: &'p str, body: &'p Tm, env: Env<'p>, k: K<'p> },
    CaseK { clauses: &'p [Clause], env: Env<'p>, k: K<'p> },
    ArgsK { kind: ArgsKind<'p>, args: &'p [Arg], idx: usize, done: Rc<Vec<Val<'p>>>, env: Env<'p>, k: K<'p> },
    PendingDtor { name: &'p str, args: &'p [Arg], env: Env<'p>, k: K<'p> },
    RDtor { name: &'p str, vals: Rc<Vec<Val<'p>>>, k: K<'p> },
}

#[derive(Clone, Debug, PartialEq, Eq)]
pub enum Outcome {
    /// output bytes and the value the program terminated with
    Done { out: Vec<u8>, result: i64 },
    Undefined(&'static str),
    OutOfFuel,
    /// the reference machine got stuck: a harness bug (ill-typed generated program)
    Stuck(String),
}

#[derive(Default, Clone, Debug)]
pub struct RunStats {
    pub steps: u64,
    pub calls: u64,
    pub user_calls: u64,
    pub cases: u64,
    pub dtors: u64,
    pub forces: u64,
    pub max_forces_one_thunk: u64,
    pub labels: u64,
    pub gotos: u64,
    pub prints: u64,
    pub exits: u64,
    pub allocs: u64,
}

enum State<'p> {
    Eval(&'p Tm, Env<'p>, K<'p>),
    Ret(Val<'p>, K<'p>),
    Resolve(K<'p>, Rc<Then<'p>>),
    Args(ArgsKind<'p>, &'p [Arg], usize, Rc<Vec<Val<'p>>>, Env<'p>, K<'p>),
}

pub struct Machine<'p> {
    prog: &'p Program,
    pub out: Vec<u8>,
    pub stats: RunStats,
    fuel: u64,
    max_out: usize,
}

impl<'p> Machine<'p> {
    pub fn new(prog: &'p Program, fuel: u64) -> Self {
        Machine { prog, out: vec![], stats: RunStats::default(), fuel, max_out: 1 << 16 }
    }

    pub fn run_main(&mut self, args: &[i64]) -> Outcome {
        let main = match self.prog.def("main") {
            Some(m) => m,
            None => return Outcome::Stuck("no main".into()),
        };
        if main.params.len() != args.len() {
            return Outcome::Stuck("arity".into());
        }
        let mut env: Env<'p> = None;
        for (p, a) in main.params.iter().zip(args) {
            env = bind(&env, &p.name, Val::Int(*a));
        }
        self.run(State::Eval(&main.body, env, Rc::new(KNode::Halt)))
    }

    fn run(&mut self, mut st: State<'p>) -> Outcome {
        loop {
            self.stats.steps += 1;
            if self.stats.steps > self.fuel || self.out.len() > self.max_out {
                return Outcome::OutOfFuel;
            }
            st = match self.step(st) {
                Ok(s) => s,
                Err(o) => return o,
            };
        }
    }

    fn stuck<T>(msg: &str) -> Result<T, Outcome> {
        Err(Outcome::Stuck(msg.to_string()))
    }

    fn step(&mut self, st: State<'p>) -> Result<State<'p>, Outcome> {
        match st {
            State::Eval(t, env, k) => self.eval(t, env, k),
            State::Ret(v, k) => self.ret(v, k),
            State::Resolve(k, then) => self.resolve(k, then),
            State::Args(kind, args, idx, done, env, k) => self.args(kind, args, idx, done, env, k),
        }
    }

    fn eval(&mut self, t: &'p Tm, env: Env<'p>, k: K<'p>) -> Result<State<'p>, Outcome> {
        Ok(match t {
            Tm::Lit(n) => State::Ret(Val::Int(*n), k),
            Tm::Var(x) => match lookup(&env, x) {
                None => return Self::stuck(&format!("unbound {x}")),
                Some(v @ Val::Thunk(..)) => State::Resolve(k, Rc::new(Then::Force(v))),
                Some(v) => State::Ret(v, k),
            },
            Tm::Op(a, op, b) => State::Eval(a, env.clone(), Rc::new(KNode::Op1 { op: *op, snd: b, env, k })),
            Tm::If { fst, .. } => State::Eval(fst, env.clone(), Rc::new(KNode::If1 { node: t, env, k })),
            Tm::Print { newline, arg, next } => State::Eval(
                arg,
                env.clone(),
                Rc::new(KNode::PrintK { newline: *newline, next, env, k }),
            ),
            Tm::Let { var, lazy, bound, body, .. } => {
                if *lazy {
                    let th = self.thunk(bound, &env);
                    State::Eval(body, bind(&env, var, th), k)
                } else {
                    State::Eval(bound, env.clone(), Rc::new(KNode::LetK { var, body, env, k }))
                }
            }
            Tm::Call { name, args } => {
                let def = match self.prog.def(name) {
                    Some(d) => d,
                    None => return Self::stuck("unknown def"),
                };
                State::Args(ArgsKind::Call(def), args, 0, Rc::new(vec![]), env, k)
            }
            Tm::Ctor { name, args } => State::Args(ArgsKind::Ctor(name), args, 0, Rc::new(vec![]), env, k),
            Tm::Dtor { scrut, name, args, .. } => {
                self.stats.dtors += 1;
                State::Eval(
                    scrut,
                    env.clone(),
                    Rc::new(KNode::PendingDtor { name, args, env, k }),
                )
            }
            Tm::Case { scrut, clauses, .. } => {
                State::Eval(scrut, env.clone(), Rc::new(KNode::CaseK { clauses, env, k }))
            }
            Tm::New { clauses } => State::Resolve(k, Rc::new(Then::ApplyNew(clauses, env))),
            Tm::Label { name, body } => {
                self.stats.labels += 1;
                State::Resolve(k, Rc::new(Then::BindLabel(name, body, env)))
            }
            Tm::Goto { name, arg } => {
                self.stats.gotos += 1;
                match lookup(&env, name) {
                    Some(Val::Kont(k2)) => State::Eval(arg, env, k2),
                    _ => return Self::stuck("goto target"),
                }
            }
            Tm::Exit(a) => State::Eval(a, env, Rc::new(KNode::ExitK)),
            Tm::Paren(a) => State::Eval(a, env, k),
        })
    }

    fn thunk(&mut self, t: &'p Tm, env: &Env<'p>) -> Val<'p> {
        self.stats.allocs += 1;
        // a variable is an alias of whatever it is bound to
        let mut t = t;
        while let Tm::Paren(inner) = t {
            t = inner;
        }
        if let Tm::Var(x) = t {
            if let Some(v @ Val::Thunk(..)) = lookup(env, x) {
                return v;
            }
        }
        Val::Thunk(t, env.clone())
    }

    fn args(
        &mut self,
        kind: ArgsKind<'p>,
        args: &'p [Arg],
        idx: usize,
        done: Rc<Vec<Val<'p>>>,
        env: Env<'p>,
        k: K<'p>,
    ) -> Result<State<'p>, Outcome> {
        let mut idx = idx;
        let mut done = done;
        // cheap arguments are handled without going through the machine
        while idx < args.len() {
            match &args[idx] {
                Arg::Covar(c) => match lookup(&env, c) {
                    Some(v @ Val::Kont(_)) => {
                        Rc::make_mut(&mut done).push(v);
                        idx += 1;
                    }
                    _ => return Self::stuck("covariable argument"),
                },
                Arg::Tm { t, lazy: true } => {
                    let th = self.thunk(t, &env);
                    Rc::make_mut(&mut done).push(th);
                    idx += 1;
                }
                Arg::Tm { t, lazy: false } => {
                    let frame = Rc::new(KNode::ArgsK { kind, args, idx, done, env: env.clone(), k });
                    return Ok(State::Eval(t, env, frame));
                }
            }
        }
        // all arguments are values
        Ok(match kind {
            ArgsKind::Ctor(name) => {
                self.stats.allocs += 1;
                State::Ret(Val::Data(name, done), k)
            }
            ArgsKind::Call(def) => State::Resolve(k, Rc::new(Then::EnterCall(def, done))),
            ArgsKind::Dtor { name, inner, then } => {
                State::Resolve(inner, Rc::new(Then::Wrap { name, vals: done, outer: then }))
            }
        })
    }

    fn resolve(&mut self, k: K<'p>, then: Rc<Then<'p>>) -> Result<State<'p>, Outcome> {
        if let KNode::PendingDtor { name, args, env, k: inner } = &*k {
            return Ok(State::Args(
                ArgsKind::Dtor { name, inner: inner.clone(), then },
                args,
                0,
                Rc::new(vec![]),
                env.clone(),
                // unused
                Rc::new(KNode::Halt),
            ));
        }
        self.apply_then(&then, k)
    }

    fn apply_then(&mut self, then: &Then<'p>, k: K<'p>) -> Result<State<'p>, Outcome> {
        match then {
            Then::Force(Val::Thunk(t, env)) => {
                self.stats.forces += 1;
                Ok(State::Eval(t, env.clone(), k))
            }
            Then::Force(_) => Self::stuck("force of a non-thunk"),
            Then::ApplyNew(clauses, env) => match &*k {
                KNode::RDtor { name, vals, k: inner } => {
                    let clause = match clauses.iter().find(|c| c.xtor == *name) {
                        Some(c) => c,
                        None => return Self::stuck("no clause for destructor"),
                    };
                    if clause.binders.len() != vals.len() {
                        return Self::stuck("destructor arity");
                    }
                    let mut env2 = env.clone();
                    for (b, v) in clause.binders.iter().zip(vals.iter()) {
                        env2 = bind(&env2, b, v.clone());
                    }
                    Ok(State::Eval(&clause.body, env2, inner.clone()))
                }
                _ => Self::stuck("new against a non-destructor continuation"),
            },
            Then::EnterCall(def, vals) => {
                self.stats.calls += 1;
                if !def.name.starts_with("mk") {
                    self.stats.user_calls += 1;
                }
                if def.params.len() != vals.len() {
                    return Self::stuck("call arity");
                }
                let mut env2: Env<'p> = None;
                for (p, v) in def.params.iter().zip(vals.iter()) {
                    env2 = bind(&env2, &p.name, v.clone());
                }
                Ok(State::Eval(&def.body, env2, k))
            }
            Then::BindLabel(name, body, env) => {
                let env2 = bind(env, name, Val::Kont(k.clone()));
                Ok(State::Eval(body, env2, k))
            }
            Then::Wrap { name, vals, outer } => {
                let k2 = Rc::new(KNode::RDtor { name, vals: vals.clone(), k });
                self.apply_then(outer, k2)
            }
        }
    }

    fn ret(&mut self, v: Val<'p>, k: K<'p>) -> Result<State<'p>, Outcome> {
        let int = |v: &Val<'p>| -> Result<i64, Outcome> {
            match v {
                Val::Int(n) => Ok(*n),
                _ => Err(Outcome::Stuck("integer expected".into())),
            }
        };
        Ok(match &*k {
            KNode::Halt | KNode::ExitK => {
                if matches!(&*k, KNode::ExitK) {
                    self.stats.exits += 1;
                }
                let n = int(&v)?;
                return Err(Outcome::Done { out: std::mem::take(&mut self.out), result: n });
            }
            KNode::Op1 { op, snd, env, k } => {
                let a = int(&v)?;
                State::Eval(snd, env.clone(), Rc::new(KNode::Op2 { op: *op, a, k: k.clone() }))
            }
            KNode::Op2 { op, a, k } => {
                let b = int(&v)?;
                match op.eval(*a, b) {
                    Some(r) => State::Ret(Val::Int(r), k.clone()),
                    None => return Err(Outcome::Undefined("division")),
                }
            }
            KNode::If1 { node, env, k } => {
                let a = int(&v)?;
                if let Tm::If { sort, snd, thn, els, .. } = node {
                    match snd {
                        None => {
                            let b = if sort.eval(a, 0) { thn } else { els };
                            State::Eval(b, env.clone(), k.clone())
                        }
                        Some(s) => State::Eval(
                            s,
                            env.clone(),
                            Rc::new(KNode::If2 { node, a, env: env.clone(), k: k.clone() }),
                        ),
                    }
                } else {
                    return Self::stuck("if frame");
                }
            }
            KNode::If2 { node, a, env, k } => {
                let b = int(&v)?;
                if let Tm::If { sort, thn, els, .. } = node {
                    let br = if sort.eval(*a, b) { thn } else { els };
                    State::Eval(br, env.clone(), k.clone())
                } else {
                    return Self::stuck("if frame");
                }
            }
            KNode::PrintK { newline, next, env, k } => {
                let n = int(&v)?;
                self.stats.prints += 1;
                self.out.extend_from_slice(n.to_string().as_bytes());
                if *newline {
                    self.out.push(b'\n');
                }
                State::Eval(next, env.clone(), k.clone())
            }
            KNode::LetK { var, body, env, k } => State::Eval(body, bind(env, var, v), k.clone()),
            KNode::CaseK { clauses, env, k } => match v {
                Val::Data(ctor, fields) => {
                    self.stats.cases += 1;
                    let clause = match clauses.iter().find(|c| c.xtor == ctor) {
                        Some(c) => c,
                        None => return Self::stuck("no clause for constructor"),
                    };
                    if clause.binders.len() != fields.len() {
                        return Self::stuck("constructor arity");
                    }
                    let mut env2 = env.clone();
                    for (b, f) in clause.binders.iter().zip(fields.iter()) {
                        env2 = bind(&env2, b, f.clone());
                    }
                    State::Eval(&clause.body, env2, k.clone())
                }
                _ => return Self::stuck("case on a non-constructor"),
            },
            KNode::ArgsK { kind, args, idx, done, env, k } => {
                let mut done = done.clone();
                Rc::make_mut(&mut done).push(v);
                State::Args(kind.clone(), args, idx + 1, done, env.clone(), k.clone())
            }
            KNode::PendingDtor { .. } | KNode::RDtor { .. } => {
                return Self::stuck("value returned to a destructor continuation")
            }
        })
    }
}

pub fn run(prog: &Program, args: &[i64], fuel: u64) -> (Outcome, RunStats) {
    let mut m = Machine::new(prog, fuel);
    let o = m.run_main(args);
    (o, m.stats)
}

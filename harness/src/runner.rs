//! Generic driver: seeded generation of choice buffers with proptest, parallel execution,
//! byte-level shrinking of the first failure, replay files, evidence files, known findings.

use proptest::strategy::{Strategy, ValueTree};
use proptest::test_runner::{Config, RngAlgorithm, TestRng, TestRunner};
use rayon::prelude::*;
use serde_json::{Value, json};
use std::collections::{BTreeMap, HashSet};
use std::path::PathBuf;
use std::sync::atomic::{AtomicBool, Ordering};
use std::time::Instant;

#[derive(Clone, Copy, Debug, PartialEq, Eq)]
pub enum Tier {
    Quick,
    Thorough,
}

impl Tier {
    pub fn name(self) -> &'static str {
        match self {
            Tier::Quick => "quick",
            Tier::Thorough => "thorough",
        }
    }
    pub fn pick<T>(self, q: T, t: T) -> T {
        match self {
            Tier::Quick => q,
            Tier::Thorough => t,
        }
    }
}

pub struct Ctx {
    pub id: String,
    pub tier: Tier,
    pub seed: u64,
    pub root: PathBuf,
    pub scratch: PathBuf,
    pub known: Vec<KnownFinding>,
    /// strict replay mode: print details
    pub verbose: bool,
}

#[derive(Clone, Debug)]
pub struct KnownFinding {
    pub property: String,
    pub status: String,
    pub id: String,
    pub what: String,
    pub replay: Option<String>,
}

pub fn load_known(root: &std::path::Path) -> Vec<KnownFinding> {
    let p = root.join("known_findings.json");
    let Ok(s) = std::fs::read_to_string(&p) else { return vec![] };
    let Ok(v) = serde_json::from_str::<Value>(&s) else { return vec![] };
    let mut out = vec![];
    if let Some(a) = v.get("findings").and_then(|f| f.as_array()) {
        for e in a {
            out.push(KnownFinding {
                property: e["property"].as_str().unwrap_or("").to_string(),
                status: e["status"].as_str().unwrap_or("").to_string(),
                id: e["id"].as_str().unwrap_or("").to_string(),
                what: e["what"].as_str().unwrap_or("").to_string(),
                replay: e.get("replay").and_then(|r| r.as_str()).map(|s| s.to_string()),
            });
        }
    }
    out
}

impl Ctx {
    /// is there an unrepaired known finding with this id for this property?
    pub fn known_open(&self, finding_id: &str) -> bool {
        self.known
            .iter()
            .any(|k| k.status == "known" && k.id.starts_with(finding_id) && (k.property == self.id || k.property == "*"))
    }
}

#[derive(Debug, Clone)]
pub struct Failure {
    /// coarse class of the failure (shrinking keeps the class)
    pub kind: String,
    pub summary: String,
    /// readable artefacts for the replay file
    pub details: Value,
}

#[derive(Debug, Clone)]
pub enum CaseResult {
    Pass {
        nontrivial: bool,
        /// hash of the decoded case (for distinctness)
        hash: u64,
        classes: Vec<String>,
        sample: Option<Value>,
    },
    Discard(String),
    Fail(Failure),
}

pub fn hash_str(s: &str) -> u64 {
    // FNV-1a: stable across runs and platforms
    let mut h: u64 = 0xcbf29ce484222325;
    for b in s.as_bytes() {
        h ^= *b as u64;
        h = h.wrapping_mul(0x100000001b3);
    }
    h
}

pub fn hex(b: &[u8]) -> String {
    b.iter().map(|x| format!("{x:02x}")).collect()
}

pub fn unhex(s: &str) -> Vec<u8> {
    (0..s.len() / 2)
        .filter_map(|i| u8::from_str_radix(&s[2 * i..2 * i + 2], 16).ok())
        .collect()
}

#[derive(Default)]
pub struct Evidence {
    pub evaluations: u64,
    pub nontrivial: HashSet<u64>,
    pub classes: BTreeMap<String, u64>,
    pub discards: BTreeMap<String, u64>,
    pub samples: Vec<Value>,
    pub violations: u64,
    pub rule: String,
    pub assumptions: Vec<String>,
    pub extra: BTreeMap<String, Value>,
    pub exhaustive: bool,
    pub known_printed: Vec<String>,
}

impl Evidence {
    pub fn absorb(&mut self, r: &CaseResult) {
        self.evaluations += 1;
        match r {
            CaseResult::Pass { nontrivial, hash, classes, sample } => {
                if *nontrivial {
                    self.nontrivial.insert(*hash);
                }
                for c in classes {
                    *self.classes.entry(c.clone()).or_insert(0) += 1;
                }
                if let Some(s) = sample {
                    if self.samples.len() < 4 && *nontrivial {
                        self.samples.push(s.clone());
                    }
                }
            }
            CaseResult::Discard(why) => {
                *self.discards.entry(why.clone()).or_insert(0) += 1;
            }
            CaseResult::Fail(_) => {
                self.violations += 1;
            }
        }
    }

    pub fn write(&self, ctx: &Ctx, wall_s: f64) {
        let mut coverage = serde_json::Map::new();
        coverage.insert("evaluations".into(), json!(self.evaluations));
        coverage.insert("distinct_nontrivial".into(), json!(self.nontrivial.len()));
        coverage.insert("rule".into(), json!(self.rule));
        let samples = if self.samples.is_empty() {
            vec![json!("(no non-trivial sample recorded)")]
        } else {
            self.samples.clone()
        };
        coverage.insert("samples".into(), json!(samples));
        coverage.insert("classes".into(), json!(self.classes));
        coverage.insert("discarded".into(), json!(self.discards));
        if self.exhaustive {
            coverage.insert("exhaustive".into(), json!(true));
        }
        if !self.known_printed.is_empty() {
            coverage.insert("known_findings_reported".into(), json!(self.known_printed));
        }
        for (k, v) in &self.extra {
            coverage.insert(k.clone(), v.clone());
        }
        let ev = json!({
            "property_id": ctx.id,
            "tier": ctx.tier.name(),
            "seed": ctx.seed,
            "level": "exploration",
            "coverage": Value::Object(coverage),
            "assumptions": self.assumptions,
            "wall_s": (wall_s * 1000.0).round() / 1000.0,
            "violations": self.violations,
        });
        let dir = ctx.root.join("evidence");
        let _ = std::fs::create_dir_all(&dir);
        let path = dir.join(format!("{}.json", ctx.id));
        let _ = std::fs::write(&path, serde_json::to_string_pretty(&ev).unwrap() + "\n");
    }
}

/// Seeded choice buffers from proptest's generator (`vec(any::<u8>(), lo..hi)`).
pub fn buffers(seed: u64, stream: u64, n: usize, lo: usize, hi: usize) -> Vec<Vec<u8>> {
    let mut seed_bytes = [0u8; 32];
    seed_bytes[..8].copy_from_slice(&seed.to_le_bytes());
    seed_bytes[8..16].copy_from_slice(&stream.to_le_bytes());
    seed_bytes[16..24].copy_from_slice(&0x9e3779b97f4a7c15u64.to_le_bytes());
    let rng = TestRng::from_seed(RngAlgorithm::ChaCha, &seed_bytes);
    let cfg = Config { failure_persistence: None, ..Config::default() };
    let mut runner = TestRunner::new_with_rng(cfg, rng);
    let strat = proptest::collection::vec(proptest::arbitrary::any::<u8>(), lo..hi);
    (0..n)
        .map(|_| strat.new_tree(&mut runner).expect("strategy").current())
        .collect()
}

/// Shrink a failing buffer: shorter, then chunk deletion / zeroing, then smaller bytes.
pub fn shrink(buf: &[u8], budget: usize, fails: &dyn Fn(&[u8]) -> bool) -> Vec<u8> {
    let mut cur = buf.to_vec();
    let mut evals = 0usize;
    let try_it = |cand: &[u8], evals: &mut usize| -> bool {
        *evals += 1;
        fails(cand)
    };
    // 1. truncate
    let mut lo = 0usize;
    let mut hi = cur.len();
    while lo < hi && evals < budget {
        let mid = (lo + hi) / 2;
        if try_it(&cur[..mid], &mut evals) {
            hi = mid;
        } else {
            lo = mid + 1;
        }
    }
    cur.truncate(hi);
    let mut progress = true;
    while progress && evals < budget {
        progress = false;
        // 2. delete / zero chunks
        for chunk in [16usize, 8, 4, 2, 1] {
            let mut i = 0;
            while i + chunk <= cur.len() && evals < budget {
                let mut cand = cur.clone();
                cand.drain(i..i + chunk);
                if try_it(&cand, &mut evals) {
                    cur = cand;
                    progress = true;
                    continue;
                }
                if cur[i..i + chunk].iter().any(|b| *b != 0) {
                    let mut cand = cur.clone();
                    for b in &mut cand[i..i + chunk] {
                        *b = 0;
                    }
                    if try_it(&cand, &mut evals) {
                        cur = cand;
                        progress = true;
                    }
                }
                i += chunk;
            }
        }
        // 3. smaller bytes
        let mut i = 0;
        while i < cur.len() && evals < budget {
            let b = cur[i];
            if b > 0 {
                for nb in [b / 2, b - 1] {
                    if nb == b {
                        continue;
                    }
                    let mut cand = cur.clone();
                    cand[i] = nb;
                    if try_it(&cand, &mut evals) {
                        cur = cand;
                        progress = true;
                        break;
                    }
                }
            }
            i += 1;
        }
    }
    cur
}

pub struct DriveOutcome {
    pub failure: Option<(Vec<u8>, Failure)>,
}

/// Run `case` on `n` generated buffers in parallel; on a failure, shrink the first failing buffer
/// (in generation order) and return it.  Everything is a pure function of (tree, seed).
pub fn drive(
    ev: &mut Evidence,
    seed: u64,
    stream: u64,
    n: usize,
    lo: usize,
    hi: usize,
    shrink_budget: usize,
    case: &(dyn Fn(&[u8]) -> CaseResult + Sync),
) -> DriveOutcome {
    let bufs = buffers(seed, stream, n, lo, hi);
    let stop = AtomicBool::new(false);
    let results: Vec<Option<CaseResult>> = bufs
        .par_iter()
        .map(|b| {
            if stop.load(Ordering::Relaxed) {
                return None;
            }
            let r = case(b);
            if matches!(r, CaseResult::Fail(_)) {
                stop.store(true, Ordering::Relaxed);
            }
            Some(r)
        })
        .collect();
    let mut first_fail: Option<usize> = None;
    for (i, r) in results.iter().enumerate() {
        if let Some(r) = r {
            if let CaseResult::Fail(_) = r {
                if first_fail.is_none() {
                    first_fail = Some(i);
                    ev.absorb(r);
                }
            } else {
                ev.absorb(r);
            }
        }
    }
    if let Some(i) = first_fail {
        let small = shrink(&bufs[i], shrink_budget, &|b| matches!(case(b), CaseResult::Fail(_)));
        let f = match case(&small) {
            CaseResult::Fail(f) => f,
            _ => match results[i].clone().unwrap() {
                CaseResult::Fail(f) => {
                    return DriveOutcome { failure: Some((bufs[i].clone(), f)) };
                }
                _ => unreachable!(),
            },
        };
        return DriveOutcome { failure: Some((small, f)) };
    }
    DriveOutcome { failure: None }
}

pub fn write_replay(ctx: &Ctx, sub: &str, bytes: &[u8], f: &Failure) -> PathBuf {
    write_replay_with(ctx, sub, bytes, f, Value::Null)
}

/// `case` is the decoded (and structurally shrunk) case; when present, replay uses it directly
pub fn write_replay_with(ctx: &Ctx, sub: &str, bytes: &[u8], f: &Failure, case: Value) -> PathBuf {
    let dir = ctx.root.join("replays").join(&ctx.id);
    let _ = std::fs::create_dir_all(&dir);
    let name = format!("{}-{:016x}.json", sub, hash_str(&(hex(bytes) + &case.to_string())));
    let path = dir.join(name);
    let v = json!({
        "property": ctx.id,
        "check": sub,
        "bytes": hex(bytes),
        "case": case,
        "kind": f.kind,
        "summary": f.summary,
        "details": f.details,
    });
    let _ = std::fs::write(&path, serde_json::to_string_pretty(&v).unwrap() + "\n");
    path
}

pub struct Report {
    pub violations: Vec<PathBuf>,
    pub infra_errors: Vec<String>,
}

pub fn finish(ctx: &Ctx, ev: &Evidence, report: &Report, start: Instant) -> i32 {
    ev.write(ctx, start.elapsed().as_secs_f64());
    for e in &report.infra_errors {
        eprintln!("INCONCLUSIVE property={} {}", ctx.id, e);
    }
    for v in &report.violations {
        println!("VIOLATION property={} replay={}", ctx.id, v.display());
    }
    println!(
        "property={} tier={} seed={} evaluations={} distinct_nontrivial={} discarded={} violations={} wall_s={:.1}",
        ctx.id,
        ctx.tier.name(),
        ctx.seed,
        ev.evaluations,
        ev.nontrivial.len(),
        ev.discards.values().sum::<u64>(),
        report.violations.len(),
        start.elapsed().as_secs_f64()
    );
    if !report.violations.is_empty() {
        1
    } else if !report.infra_errors.is_empty() {
        2
    } else {
        0
    }
}

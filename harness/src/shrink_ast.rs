//! Structural shrinking of a failing Fun program (second pass after the byte-level shrink).
//!
//! Candidates are generated without type information (replace a node by one of its children or
//! by a small literal, delete a definition, ...); the caller's test decides whether a candidate is
//! still a valid, still failing case, so ill-typed candidates are simply rejected.

use crate::fun_ast::*;
use rayon::prelude::*;

fn children_variants(t: &Tm) -> Vec<Tm> {
    let mut v: Vec<Tm> = vec![];
    let arg_terms = |args: &Vec<Arg>, v: &mut Vec<Tm>| {
        for a in args {
            if let Arg::Tm { t, .. } = a {
                v.push(t.clone());
            }
        }
    };
    match t {
        Tm::Lit(n) => {
            if *n != 0 {
                v.push(Tm::Lit(0));
                if *n != 1 {
                    v.push(Tm::Lit(1));
                }
            }
            return v;
        }
        Tm::Var(_) => {}
        Tm::Op(a, _, b) => {
            v.push((**a).clone());
            v.push((**b).clone());
        }
        Tm::If { thn, els, .. } => {
            v.push((**thn).clone());
            v.push((**els).clone());
        }
        Tm::Print { next, .. } => v.push((**next).clone()),
        Tm::Let { bound, body, .. } => {
            v.push((**body).clone());
            v.push((**bound).clone());
        }
        Tm::Call { args, .. } | Tm::Ctor { args, .. } => arg_terms(args, &mut v),
        Tm::Dtor { scrut, args, .. } => {
            v.push((**scrut).clone());
            arg_terms(args, &mut v);
        }
        Tm::Case { scrut, clauses, .. } => {
            for c in clauses {
                v.push(c.body.clone());
            }
            v.push((**scrut).clone());
        }
        Tm::New { .. } => {}
        Tm::Label { body, .. } => v.push((**body).clone()),
        Tm::Goto { arg, .. } => v.push((**arg).clone()),
        Tm::Exit(a) => v.push((**a).clone()),
        Tm::Paren(a) => v.push((**a).clone()),
    }
    v.push(Tm::Lit(0));
    v.push(Tm::Lit(1));
    v
}

fn for_each_child_mut(t: &mut Tm, f: &mut dyn FnMut(&mut Tm) -> bool) -> bool {
    // returns true as soon as f returns true (stop)
    fn args(a: &mut Vec<Arg>, f: &mut dyn FnMut(&mut Tm) -> bool) -> bool {
        for x in a {
            if let Arg::Tm { t, .. } = x {
                if f(t) {
                    return true;
                }
            }
        }
        false
    }
    match t {
        Tm::Lit(_) | Tm::Var(_) => false,
        Tm::Op(a, _, b) => f(a) || f(b),
        Tm::If { fst, snd, thn, els, .. } => {
            f(fst) || snd.as_mut().map(|s| f(s)).unwrap_or(false) || f(thn) || f(els)
        }
        Tm::Print { arg, next, .. } => f(arg) || f(next),
        Tm::Let { bound, body, .. } => f(bound) || f(body),
        Tm::Call { args: a, .. } | Tm::Ctor { args: a, .. } => args(a, f),
        Tm::Dtor { scrut, args: a, .. } => f(scrut) || args(a, f),
        Tm::Case { scrut, clauses, .. } => {
            if f(scrut) {
                return true;
            }
            for c in clauses {
                if f(&mut c.body) {
                    return true;
                }
            }
            false
        }
        Tm::New { clauses } => {
            for c in clauses {
                if f(&mut c.body) {
                    return true;
                }
            }
            false
        }
        Tm::Label { body, .. } => f(body),
        Tm::Goto { arg, .. } => f(arg),
        Tm::Exit(a) | Tm::Paren(a) => f(a),
    }
}

/// pre-order numbering; replace node `target` by variant `k`; returns number of variants there
fn mutate(t: &mut Tm, counter: &mut usize, target: usize, k: usize, nvariants: &mut usize) -> bool {
    if *counter == target {
        let vs = children_variants(t);
        *nvariants = vs.len();
        if k < vs.len() {
            *t = vs[k].clone();
        }
        *counter += 1;
        return true;
    }
    *counter += 1;
    for_each_child_mut(t, &mut |c| mutate(c, counter, target, k, nvariants))
}

fn count_nodes(t: &mut Tm) -> usize {
    let mut n = 1;
    for_each_child_mut(t, &mut |c| {
        n += count_nodes(c);
        false
    });
    n
}

pub fn shrink_program(
    prog: &Program,
    budget: usize,
    test: &(dyn Fn(&Program) -> bool + Sync),
) -> Program {
    let mut cur = prog.clone();
    let mut evals = 0usize;
    let mut progress = true;
    while progress && evals < budget {
        progress = false;
        // remove definitions
        let mut i = 0;
        while i < cur.defs.len() && evals < budget {
            if cur.defs[i].name != "main" {
                let mut cand = cur.clone();
                cand.defs.remove(i);
                cand.order.clear();
                evals += 1;
                if test(&cand) {
                    cur = cand;
                    progress = true;
                    continue;
                }
            }
            i += 1;
        }
        // remove types
        let mut i = 0;
        while i < cur.types.len() && evals < budget {
            let mut cand = cur.clone();
            cand.types.remove(i);
            cand.order.clear();
            evals += 1;
            if test(&cand) {
                cur = cand;
                progress = true;
                continue;
            }
            i += 1;
        }
        // simplify terms, one definition at a time, positions in pre-order
        for d in 0..cur.defs.len() {
            let mut pos = 0usize;
            loop {
                if evals >= budget {
                    break;
                }
                let total = count_nodes(&mut cur.defs[d].body.clone());
                if pos >= total {
                    break;
                }
                // all variants at this position, evaluated in parallel
                let mut nv = 0usize;
                {
                    let mut probe = cur.defs[d].body.clone();
                    let mut c = 0;
                    mutate(&mut probe, &mut c, pos, usize::MAX, &mut nv);
                }
                let cands: Vec<Program> = (0..nv)
                    .map(|k| {
                        let mut cand = cur.clone();
                        let mut c = 0;
                        let mut dummy = 0;
                        mutate(&mut cand.defs[d].body, &mut c, pos, k, &mut dummy);
                        cand.order.clear();
                        cand
                    })
                    .collect();
                evals += cands.len();
                let ok: Vec<bool> = cands.par_iter().map(|c| test(c)).collect();
                if let Some(k) = ok.iter().position(|b| *b) {
                    cur = cands[k].clone();
                    progress = true;
                    // stay at the same position: the replacement may shrink further
                } else {
                    pos += 1;
                }
            }
        }
    }
    cur
}

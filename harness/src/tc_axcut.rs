//! Independent static checkers for AxCut.
//!
//! * `check_linear`: the ordered, linear discipline the backends assume, over **every path** of a
//!   linearized program (DESIGN.md C05): the environment at each statement is exactly the list
//!   that statement's code generator reads off positions.
//! * `check_named`: scoping and typing of the non-linear program produced by core2axcut.

use axcut::syntax as ax;
use axcut::syntax::statements as st;

type Ctx = Vec<ax::ContextBinding>;

fn show(b: &ax::ContextBinding) -> String {
    format!("{}_{}", b.var.name, b.var.id)
}

fn show_ctx(c: &[ax::ContextBinding]) -> String {
    c.iter().map(show).collect::<Vec<_>>().join(", ")
}

fn decl<'a>(types: &'a [ax::TypeDeclaration], ty: &ax::Ty) -> Result<&'a ax::TypeDeclaration, String> {
    match ty {
        ax::Ty::Decl(n) => types
            .iter()
            .find(|d| d.name == *n)
            .ok_or_else(|| format!("unknown type {}", n.name)),
        ax::Ty::I64 => Err("i64 used as a declared type".into()),
    }
}

fn xtor<'a>(d: &'a ax::TypeDeclaration, tag: &ax::Identifier) -> Result<&'a ax::XtorSig, String> {
    d.xtors
        .iter()
        .find(|x| x.name == *tag)
        .ok_or_else(|| format!("{} is not an xtor of {}", tag.name, d.name.name))
}

fn same_kind(a: &ax::ContextBinding, b: &ax::ContextBinding) -> bool {
    a.chi == b.chi && a.ty == b.ty
}

fn distinct(ctx: &[ax::ContextBinding], what: &str) -> Result<(), String> {
    for (i, a) in ctx.iter().enumerate() {
        for b in &ctx[i + 1..] {
            if a.var.id == b.var.id {
                return Err(format!("{what}: variable id {} occurs twice in the environment [{}]", a.var.id, show_ctx(ctx)));
            }
        }
    }
    Ok(())
}

fn find<'a>(ctx: &'a [ax::ContextBinding], v: &ax::Identifier, what: &str) -> Result<&'a ax::ContextBinding, String> {
    ctx.iter()
        .find(|b| b.var.id == v.id)
        .ok_or_else(|| format!("{what}: {}_{} is not in the environment [{}]", v.name, v.id, show_ctx(ctx)))
}

fn ext(ctx: &[ax::ContextBinding], v: &ax::Identifier, what: &str) -> Result<(), String> {
    let b = find(ctx, v, what)?;
    if b.chi != ax::Chirality::Ext || b.ty != ax::Ty::I64 {
        return Err(format!("{what}: {}_{} is not an integer variable", v.name, v.id));
    }
    Ok(())
}

/// clauses are exactly one per declared xtor, in declaration order, with matching binders
fn clauses_match(d: &ax::TypeDeclaration, clauses: &[st::Clause], what: &str) -> Result<(), String> {
    if d.xtors.len() != clauses.len() {
        return Err(format!(
            "{what}: {} clauses for type {} with {} xtors",
            clauses.len(),
            d.name.name,
            d.xtors.len()
        ));
    }
    for (x, c) in d.xtors.iter().zip(clauses) {
        if x.name != c.xtor {
            return Err(format!(
                "{what}: clause {} where {} is expected (clauses must follow declaration order)",
                c.xtor.name, x.name.name
            ));
        }
        if x.args.bindings.len() != c.context.bindings.len() {
            return Err(format!("{what}: clause {} binds {} variables, the xtor has {}", c.xtor.name, c.context.bindings.len(), x.args.bindings.len()));
        }
        for (s, b) in x.args.bindings.iter().zip(c.context.bindings.iter()) {
            if !same_kind(s, b) {
                return Err(format!("{what}: clause {} binder {} has the wrong kind or type", c.xtor.name, show(b)));
            }
        }
    }
    Ok(())
}

struct Lin<'a> {
    prog: &'a ax::Prog,
    /// widest environment met at a statement
    max: std::cell::Cell<usize>,
}

impl Lin<'_> {
    fn stmt(&self, s: &ax::Statement, mut ctx: Ctx) -> Result<(), String> {
        self.max.set(self.max.get().max(ctx.len()));
        distinct(&ctx, "environment")?;
        let types = &self.prog.types;
        match s {
            ax::Statement::Substitute(sub) => {
                let mut new_ctx: Ctx = vec![];
                for (new, old) in &sub.rearrange {
                    let o = find(&ctx, old, "substitute")?;
                    if !same_kind(o, new) {
                        return Err(format!(
                            "substitute: {} := {} changes kind or type",
                            show(new),
                            show(o)
                        ));
                    }
                    new_ctx.push(new.clone());
                }
                distinct(&new_ctx, "substitute targets")?;
                self.stmt(&sub.next, new_ctx)
            }
            ax::Statement::Call(c) => {
                let Some(d) = self.prog.defs.iter().find(|d| d.name == c.label) else {
                    return Err(format!("call of unknown label {}", c.label.name));
                };
                if d.context.bindings.len() != ctx.len() {
                    return Err(format!(
                        "call {}: environment [{}] but the callee has {} parameters",
                        c.label.name,
                        show_ctx(&ctx),
                        d.context.bindings.len()
                    ));
                }
                for (p, b) in d.context.bindings.iter().zip(ctx.iter()) {
                    if !same_kind(p, b) {
                        return Err(format!(
                            "call {}: {} is passed for parameter {} of a different kind or type",
                            c.label.name,
                            show(b),
                            show(p)
                        ));
                    }
                }
                Ok(())
            }
            ax::Statement::Let(l) => {
                let d = decl(types, &l.ty)?;
                let x = xtor(d, &l.tag)?;
                let n = l.args.bindings.len();
                if x.args.bindings.len() != n {
                    return Err(format!("let {}: {} arguments for {}", l.var.name, n, l.tag.name));
                }
                if ctx.len() < n {
                    return Err(format!("let {}: environment too short", l.var.name));
                }
                let tail = ctx.split_off(ctx.len() - n);
                for ((b, a), sig) in tail.iter().zip(l.args.bindings.iter()).zip(x.args.bindings.iter()) {
                    if b.var.id != a.var.id {
                        return Err(format!(
                            "let {}: arguments [{}] are not the tail of the environment (found {})",
                            l.var.name,
                            show_ctx(&l.args.bindings),
                            show(b)
                        ));
                    }
                    if !same_kind(b, sig) {
                        return Err(format!("let {}: argument {} has the wrong kind or type", l.var.name, show(b)));
                    }
                }
                ctx.push(ax::ContextBinding { var: l.var.clone(), chi: ax::Chirality::Prd, ty: l.ty.clone() });
                self.stmt(&l.next, ctx)
            }
            ax::Statement::Switch(sw) => {
                let d = decl(types, &sw.ty)?;
                let Some(last) = ctx.pop() else { return Err("switch: empty environment".into()) };
                if last.var.id != sw.var.id {
                    return Err(format!(
                        "switch {}: the scrutinee is not the last variable of the environment (that is {})",
                        sw.var.name,
                        show(&last)
                    ));
                }
                if last.chi != ax::Chirality::Prd || last.ty != sw.ty {
                    return Err(format!("switch {}: scrutinee has the wrong kind or type", sw.var.name));
                }
                clauses_match(d, &sw.clauses, "switch")?;
                for c in &sw.clauses {
                    let mut cctx = ctx.clone();
                    cctx.extend(c.context.bindings.iter().cloned());
                    self.stmt(&c.body, cctx)?;
                }
                Ok(())
            }
            ax::Statement::Create(c) => {
                let d = decl(types, &c.ty)?;
                let Some(cenv) = &c.context else {
                    return Err(format!("create {}: closure environment not annotated", c.var.name));
                };
                let n = cenv.bindings.len();
                if ctx.len() < n {
                    return Err(format!("create {}: environment too short", c.var.name));
                }
                let tail = ctx.split_off(ctx.len() - n);
                for (b, a) in tail.iter().zip(cenv.bindings.iter()) {
                    if b.var.id != a.var.id || !same_kind(b, a) {
                        return Err(format!(
                            "create {}: closure environment [{}] is not the tail of the environment (found {})",
                            c.var.name,
                            show_ctx(&cenv.bindings),
                            show(b)
                        ));
                    }
                }
                clauses_match(d, &c.clauses, "create")?;
                for cl in &c.clauses {
                    let mut cctx: Ctx = cl.context.bindings.clone();
                    cctx.extend(tail.iter().cloned());
                    self.stmt(&cl.body, cctx)?;
                }
                ctx.push(ax::ContextBinding { var: c.var.clone(), chi: ax::Chirality::Cns, ty: c.ty.clone() });
                self.stmt(&c.next, ctx)
            }
            ax::Statement::Invoke(i) => {
                let d = decl(types, &i.ty)?;
                let x = xtor(d, &i.tag)?;
                let Some(last) = ctx.pop() else { return Err("invoke: empty environment".into()) };
                if last.var.id != i.var.id {
                    return Err(format!(
                        "invoke {}: the closure is not the last variable of the environment (that is {})",
                        i.var.name,
                        show(&last)
                    ));
                }
                if last.chi != ax::Chirality::Cns || last.ty != i.ty {
                    return Err(format!("invoke {}: closure has the wrong kind or type", i.var.name));
                }
                if ctx.len() != x.args.bindings.len() {
                    return Err(format!(
                        "invoke {} {}: environment [{}] but the method has {} parameters",
                        i.var.name,
                        i.tag.name,
                        show_ctx(&ctx),
                        x.args.bindings.len()
                    ));
                }
                for (b, sig) in ctx.iter().zip(x.args.bindings.iter()) {
                    if !same_kind(b, sig) {
                        return Err(format!("invoke {} {}: argument {} has the wrong kind or type", i.var.name, i.tag.name, show(b)));
                    }
                }
                Ok(())
            }
            ax::Statement::Literal(l) => {
                ctx.push(ax::ContextBinding { var: l.var.clone(), chi: ax::Chirality::Ext, ty: ax::Ty::I64 });
                self.stmt(&l.next, ctx)
            }
            ax::Statement::Op(o) => {
                ext(&ctx, &o.fst, "op")?;
                ext(&ctx, &o.snd, "op")?;
                ctx.push(ax::ContextBinding { var: o.var.clone(), chi: ax::Chirality::Ext, ty: ax::Ty::I64 });
                self.stmt(&o.next, ctx)
            }
            ax::Statement::PrintI64(p) => {
                ext(&ctx, &p.var, "print")?;
                self.stmt(&p.next, ctx)
            }
            ax::Statement::IfC(i) => {
                ext(&ctx, &i.fst, "if")?;
                if let Some(s) = &i.snd {
                    ext(&ctx, s, "if")?;
                }
                self.stmt(&i.thenc, ctx.clone())?;
                self.stmt(&i.elsec, ctx)
            }
            ax::Statement::Exit(e) => ext(&ctx, &e.var, "exit"),
        }
    }
}

/// the largest number of simultaneously live variables at a statement of a linear program
/// (whatever the checker thinks of the program otherwise)
pub fn max_env_linear(prog: &ax::Prog) -> usize {
    let l = Lin { prog, max: std::cell::Cell::new(0) };
    for d in &prog.defs {
        let _ = l.stmt(&d.body, d.context.bindings.clone());
    }
    l.max.get()
}

pub fn check_linear(prog: &ax::Prog) -> Result<(), String> {
    let l = Lin { prog, max: std::cell::Cell::new(0) };
    for d in &prog.defs {
        l.stmt(&d.body, d.context.bindings.clone())
            .map_err(|e| format!("definition {}: {e}", d.name.name))?;
    }
    Ok(())
}

// ------------------------------------------------------------------------------------------
// non-linear program
// ------------------------------------------------------------------------------------------

struct Named<'a> {
    prog: &'a ax::Prog,
}

impl Named<'_> {
    fn use_var(ctx: &[ax::ContextBinding], b: &ax::ContextBinding, what: &str) -> Result<(), String> {
        // innermost binding with this id
        let Some(found) = ctx.iter().rev().find(|x| x.var.id == b.var.id) else {
            return Err(format!("{what}: {} is not in scope", show(b)));
        };
        if !same_kind(found, b) {
            return Err(format!(
                "{what}: {} is used at kind/type {:?} {:?} but bound at {:?} {:?}",
                show(b),
                b.chi,
                b.ty,
                found.chi,
                found.ty
            ));
        }
        Ok(())
    }

    fn args_match(sig: &[ax::ContextBinding], args: &[ax::ContextBinding], what: &str) -> Result<(), String> {
        if sig.len() != args.len() {
            return Err(format!("{what}: {} arguments where {} are expected", args.len(), sig.len()));
        }
        for (s, a) in sig.iter().zip(args) {
            if !same_kind(s, a) {
                return Err(format!("{what}: argument {} has the wrong kind or type", show(a)));
            }
        }
        Ok(())
    }

    fn stmt(&self, s: &ax::Statement, mut ctx: Ctx) -> Result<(), String> {
        let types = &self.prog.types;
        let int = |v: &ax::Identifier| ax::ContextBinding { var: v.clone(), chi: ax::Chirality::Ext, ty: ax::Ty::I64 };
        match s {
            ax::Statement::Substitute(_) => Err("substitute in a non-linear program".into()),
            ax::Statement::Call(c) => {
                let Some(d) = self.prog.defs.iter().find(|d| d.name == c.label) else {
                    return Err(format!("call of unknown label {}", c.label.name));
                };
                Self::args_match(&d.context.bindings, &c.args.bindings, &format!("call {}", c.label.name))?;
                for a in &c.args.bindings {
                    Self::use_var(&ctx, a, "call")?;
                }
                Ok(())
            }
            ax::Statement::Let(l) => {
                let d = decl(types, &l.ty)?;
                let x = xtor(d, &l.tag)?;
                Self::args_match(&x.args.bindings, &l.args.bindings, &format!("let {}", l.var.name))?;
                for a in &l.args.bindings {
                    Self::use_var(&ctx, a, "let")?;
                }
                ctx.push(ax::ContextBinding { var: l.var.clone(), chi: ax::Chirality::Prd, ty: l.ty.clone() });
                self.stmt(&l.next, ctx)
            }
            ax::Statement::Switch(sw) => {
                let d = decl(types, &sw.ty)?;
                Self::use_var(
                    &ctx,
                    &ax::ContextBinding { var: sw.var.clone(), chi: ax::Chirality::Prd, ty: sw.ty.clone() },
                    "switch",
                )?;
                clauses_match(d, &sw.clauses, "switch")?;
                for c in &sw.clauses {
                    let mut cctx = ctx.clone();
                    cctx.extend(c.context.bindings.iter().cloned());
                    self.stmt(&c.body, cctx)?;
                }
                Ok(())
            }
            ax::Statement::Create(c) => {
                let d = decl(types, &c.ty)?;
                clauses_match(d, &c.clauses, "create")?;
                for cl in &c.clauses {
                    let mut cctx = ctx.clone();
                    cctx.extend(cl.context.bindings.iter().cloned());
                    self.stmt(&cl.body, cctx)?;
                }
                ctx.push(ax::ContextBinding { var: c.var.clone(), chi: ax::Chirality::Cns, ty: c.ty.clone() });
                self.stmt(&c.next, ctx)
            }
            ax::Statement::Invoke(i) => {
                let d = decl(types, &i.ty)?;
                let x = xtor(d, &i.tag)?;
                Self::use_var(
                    &ctx,
                    &ax::ContextBinding { var: i.var.clone(), chi: ax::Chirality::Cns, ty: i.ty.clone() },
                    "invoke",
                )?;
                Self::args_match(&x.args.bindings, &i.args.bindings, &format!("invoke {} {}", i.var.name, i.tag.name))?;
                for a in &i.args.bindings {
                    Self::use_var(&ctx, a, "invoke")?;
                }
                Ok(())
            }
            ax::Statement::Literal(l) => {
                ctx.push(int(&l.var));
                self.stmt(&l.next, ctx)
            }
            ax::Statement::Op(o) => {
                Self::use_var(&ctx, &int(&o.fst), "op")?;
                Self::use_var(&ctx, &int(&o.snd), "op")?;
                ctx.push(int(&o.var));
                self.stmt(&o.next, ctx)
            }
            ax::Statement::PrintI64(p) => {
                Self::use_var(&ctx, &int(&p.var), "print")?;
                self.stmt(&p.next, ctx)
            }
            ax::Statement::IfC(i) => {
                Self::use_var(&ctx, &int(&i.fst), "if")?;
                if let Some(s) = &i.snd {
                    Self::use_var(&ctx, &int(s), "if")?;
                }
                self.stmt(&i.thenc, ctx.clone())?;
                self.stmt(&i.elsec, ctx)
            }
            ax::Statement::Exit(e) => Self::use_var(&ctx, &int(&e.var), "exit"),
        }
    }
}

pub fn check_named(prog: &ax::Prog) -> Result<(), String> {
    let n = Named { prog };
    let mut names = std::collections::HashSet::new();
    for d in &prog.defs {
        if !names.insert((d.name.name.clone(), d.name.id)) {
            return Err(format!("label {} is defined twice", d.name.name));
        }
        n.stmt(&d.body, d.context.bindings.clone())
            .map_err(|e| format!("definition {}: {e}", d.name.name))?;
    }
    Ok(())
}

/// every lifted definition receives exactly its free variables (C04), binders unique along paths
pub fn check_binders_unique(prog: &ax::Prog) -> Result<(), String> {
    fn go(s: &ax::Statement, path: &mut Vec<usize>) -> Result<(), String> {
        let mut bind = |id: usize, name: &str, path: &mut Vec<usize>| -> Result<(), String> {
            if path.contains(&id) {
                return Err(format!("binder {name}_{id} is bound twice along one path"));
            }
            path.push(id);
            Ok(())
        };
        let n = path.len();
        let r = (|| match s {
            ax::Statement::Substitute(sub) => go(&sub.next, path),
            ax::Statement::Call(_) | ax::Statement::Invoke(_) | ax::Statement::Exit(_) => Ok(()),
            ax::Statement::Let(l) => {
                bind(l.var.id, &l.var.name, path)?;
                go(&l.next, path)
            }
            ax::Statement::Switch(sw) => {
                for c in &sw.clauses {
                    let m = path.len();
                    for b in &c.context.bindings {
                        bind(b.var.id, &b.var.name, path)?;
                    }
                    go(&c.body, path)?;
                    path.truncate(m);
                }
                Ok(())
            }
            ax::Statement::Create(c) => {
                for cl in &c.clauses {
                    let m = path.len();
                    for b in &cl.context.bindings {
                        bind(b.var.id, &b.var.name, path)?;
                    }
                    go(&cl.body, path)?;
                    path.truncate(m);
                }
                bind(c.var.id, &c.var.name, path)?;
                go(&c.next, path)
            }
            ax::Statement::Literal(l) => {
                bind(l.var.id, &l.var.name, path)?;
                go(&l.next, path)
            }
            ax::Statement::Op(o) => {
                bind(o.var.id, &o.var.name, path)?;
                go(&o.next, path)
            }
            ax::Statement::PrintI64(p) => go(&p.next, path),
            ax::Statement::IfC(i) => {
                go(&i.thenc, path)?;
                go(&i.elsec, path)
            }
        })();
        path.truncate(n);
        r
    }
    for d in &prog.defs {
        let mut path: Vec<usize> = d.context.bindings.iter().map(|b| b.var.id).collect();
        go(&d.body, &mut path).map_err(|e| format!("definition {}: {e}", d.name.name))?;
    }
    Ok(())
}

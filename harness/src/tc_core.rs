//! Independent scope and type checker for Core programs (unfocused `Prog` and focused `FsProg`).
//!
//! Checked rules (exactly those of property C12): both sides of a cut have the annotated type,
//! every variable occurrence is bound with the chirality and type it is annotated with, every
//! (co)match has exactly one clause per declared xtor with matching binders, constructor /
//! destructor / call arguments match the signature in length, chirality and type.

use core_lang::syntax as cs;

type Ctx = Vec<cs::ContextBinding>;

struct Tc<'a> {
    data: &'a [cs::DataDeclaration],
    codata: &'a [cs::CodataDeclaration],
    defs: Vec<(&'a cs::Identifier, &'a cs::TypingContext)>,
}

fn show(i: &cs::Identifier) -> String {
    if i.id == 0 { i.name.clone() } else { format!("{}_{}", i.name, i.id) }
}

fn show_ty(t: &cs::Ty) -> String {
    match t {
        cs::Ty::I64 => "i64".into(),
        cs::Ty::Decl(n) => show(n),
    }
}

impl<'a> Tc<'a> {
    fn ty_ok(&self, t: &cs::Ty) -> Result<(), String> {
        match t {
            cs::Ty::I64 => Ok(()),
            cs::Ty::Decl(n) => {
                if self.data.iter().any(|d| d.name == *n) || self.codata.iter().any(|d| d.name == *n) {
                    Ok(())
                } else {
                    Err(format!("unknown type {}", show(n)))
                }
            }
        }
    }

    fn lookup(ctx: &Ctx, v: &cs::Identifier, chi: cs::Chirality, ty: &cs::Ty) -> Result<(), String> {
        match ctx.iter().rev().find(|b| b.var == *v) {
            None => Err(format!("{} is not in scope", show(v))),
            Some(b) => {
                if b.chi != chi {
                    Err(format!("{} is bound as {:?} but used as {:?}", show(v), b.chi, chi))
                } else if b.ty != *ty {
                    Err(format!(
                        "{} is annotated with type {} but bound at type {}",
                        show(v),
                        show_ty(ty),
                        show_ty(&b.ty)
                    ))
                } else {
                    Ok(())
                }
            }
        }
    }

    fn expect(what: &str, ann: &cs::Ty, expected: &cs::Ty) -> Result<(), String> {
        if ann == expected {
            Ok(())
        } else {
            Err(format!("{what} has type {} where {} is expected", show_ty(ann), show_ty(expected)))
        }
    }

    fn xtor_sig(&self, ty: &cs::Ty, name: &cs::Identifier, data: bool) -> Result<&'a cs::TypingContext, String> {
        let cs::Ty::Decl(tn) = ty else { return Err(format!("xtor {} at type i64", show(name))) };
        if data {
            let d = self.data.iter().find(|d| d.name == *tn).ok_or_else(|| format!("{} is not a data type", show(tn)))?;
            d.xtors.iter().find(|x| x.name == *name).map(|x| &x.args).ok_or_else(|| format!("{} is not a constructor of {}", show(name), show(tn)))
        } else {
            let d = self.codata.iter().find(|d| d.name == *tn).ok_or_else(|| format!("{} is not a codata type", show(tn)))?;
            d.xtors.iter().find(|x| x.name == *name).map(|x| &x.args).ok_or_else(|| format!("{} is not a destructor of {}", show(name), show(tn)))
        }
    }

    fn xtor_names(&self, ty: &cs::Ty, data: bool) -> Result<Vec<&'a cs::Identifier>, String> {
        let cs::Ty::Decl(tn) = ty else { return Err("match at type i64".into()) };
        if data {
            let d = self.data.iter().find(|d| d.name == *tn).ok_or_else(|| format!("case at {}, which is not a data type", show(tn)))?;
            Ok(d.xtors.iter().map(|x| &x.name).collect())
        } else {
            let d = self.codata.iter().find(|d| d.name == *tn).ok_or_else(|| format!("cocase at {}, which is not a codata type", show(tn)))?;
            Ok(d.xtors.iter().map(|x| &x.name).collect())
        }
    }

    fn clause_ctx(&self, ty: &cs::Ty, xtor: &cs::Identifier, context: &cs::TypingContext, data: bool) -> Result<(), String> {
        let sig = self.xtor_sig(ty, xtor, data)?;
        if sig.bindings.len() != context.bindings.len() {
            return Err(format!("clause {} binds {} variables, the xtor has {}", show(xtor), context.bindings.len(), sig.bindings.len()));
        }
        for (s, b) in sig.bindings.iter().zip(&context.bindings) {
            if s.chi != b.chi || s.ty != b.ty {
                return Err(format!("clause {}: binder {} has the wrong chirality or type", show(xtor), show(&b.var)));
            }
        }
        Ok(())
    }

    fn clauses_cover(&self, ty: &cs::Ty, names: Vec<&cs::Identifier>, data: bool) -> Result<(), String> {
        let declared = self.xtor_names(ty, data)?;
        if declared.len() != names.len() {
            return Err(format!("{} clauses for type {} with {} xtors", names.len(), show_ty(ty), declared.len()));
        }
        for d in &declared {
            let n = names.iter().filter(|x| **x == *d).count();
            if n != 1 {
                return Err(format!("{n} clauses for xtor {} of {}", show(d), show_ty(ty)));
            }
        }
        Ok(())
    }

    // ---------------- unfocused ----------------

    fn args(&self, ctx: &Ctx, sig: &cs::TypingContext, args: &cs::Arguments, what: &str) -> Result<(), String> {
        if sig.bindings.len() != args.entries.len() {
            return Err(format!("{what}: {} arguments where {} are expected", args.entries.len(), sig.bindings.len()));
        }
        for (s, a) in sig.bindings.iter().zip(&args.entries) {
            match a {
                cs::arguments::Argument::Producer(p) => {
                    if s.chi != cs::Chirality::Prd {
                        return Err(format!("{what}: producer passed for covariable parameter {}", show(&s.var)));
                    }
                    self.term(ctx, p, &s.ty).map_err(|e| format!("{what}: {e}"))?;
                }
                cs::arguments::Argument::Consumer(c) => {
                    if s.chi != cs::Chirality::Cns {
                        return Err(format!("{what}: consumer passed for variable parameter {}", show(&s.var)));
                    }
                    self.term(ctx, c, &s.ty).map_err(|e| format!("{what}: {e}"))?;
                }
            }
        }
        Ok(())
    }

    fn term<C: cs::Chi>(&self, ctx: &Ctx, t: &cs::Term<C>, expected: &cs::Ty) -> Result<(), String> {
        match t {
            cs::Term::XVar(v) => {
                Self::expect(&format!("variable {}", show(&v.var)), &v.ty, expected)?;
                let chi = if v.prdcns.is_prd() { cs::Chirality::Prd } else { cs::Chirality::Cns };
                Self::lookup(ctx, &v.var, chi, &v.ty)
            }
            cs::Term::Literal(_) => Self::expect("literal", &cs::Ty::I64, expected),
            cs::Term::Op(o) => {
                Self::expect("arithmetic expression", &cs::Ty::I64, expected)?;
                self.term(ctx, &*o.fst, &cs::Ty::I64)?;
                self.term(ctx, &*o.snd, &cs::Ty::I64)
            }
            cs::Term::Mu(m) => {
                Self::expect("mu abstraction", &m.ty, expected)?;
                self.ty_ok(&m.ty)?;
                let chi = if m.prdcns.is_prd() { cs::Chirality::Cns } else { cs::Chirality::Prd };
                let mut c2 = ctx.clone();
                c2.push(cs::ContextBinding { var: m.variable.clone(), chi, ty: m.ty.clone() });
                self.stmt(&c2, &m.statement)
            }
            cs::Term::Xtor(x) => {
                Self::expect(&format!("xtor {}", show(&x.name)), &x.ty, expected)?;
                let sig = self.xtor_sig(&x.ty, &x.name, x.prdcns.is_prd())?;
                self.args(ctx, sig, &x.args, &format!("xtor {}", show(&x.name)))
            }
            cs::Term::XCase(x) => {
                Self::expect("(co)case", &x.ty, expected)?;
                let data = !x.prdcns.is_prd();
                self.clauses_cover(&x.ty, x.clauses.iter().map(|c| &c.xtor).collect(), data)?;
                for c in &x.clauses {
                    self.clause_ctx(&x.ty, &c.xtor, &c.context, data)?;
                    let mut c2 = ctx.clone();
                    c2.extend(c.context.bindings.iter().cloned());
                    self.stmt(&c2, &c.body)?;
                }
                Ok(())
            }
        }
    }

    fn stmt(&self, ctx: &Ctx, s: &cs::Statement) -> Result<(), String> {
        match s {
            cs::Statement::Cut(c) => {
                self.ty_ok(&c.ty)?;
                self.term(ctx, &*c.producer, &c.ty).map_err(|e| format!("cut at {}: producer: {e}", show_ty(&c.ty)))?;
                self.term(ctx, &*c.consumer, &c.ty).map_err(|e| format!("cut at {}: consumer: {e}", show_ty(&c.ty)))
            }
            cs::Statement::IfC(i) => {
                self.term(ctx, &*i.fst, &cs::Ty::I64)?;
                if let Some(s) = &i.snd {
                    self.term(ctx, &**s, &cs::Ty::I64)?;
                }
                self.stmt(ctx, &i.thenc)?;
                self.stmt(ctx, &i.elsec)
            }
            cs::Statement::PrintI64(p) => {
                self.term(ctx, &*p.arg, &cs::Ty::I64)?;
                self.stmt(ctx, &p.next)
            }
            cs::Statement::Call(c) => {
                let Some((_, sig)) = self.defs.iter().find(|(n, _)| **n == c.name) else {
                    return Err(format!("call of unknown definition {}", show(&c.name)));
                };
                self.args(ctx, sig, &c.args, &format!("call {}", show(&c.name)))
            }
            cs::Statement::Exit(e) => self.term(ctx, &*e.arg, &cs::Ty::I64),
        }
    }

    // ---------------- focused ----------------

    fn fs_args(&self, ctx: &Ctx, sig: &cs::TypingContext, args: &cs::TypingContext, what: &str) -> Result<(), String> {
        if sig.bindings.len() != args.bindings.len() {
            return Err(format!("{what}: {} arguments where {} are expected", args.bindings.len(), sig.bindings.len()));
        }
        for (s, a) in sig.bindings.iter().zip(&args.bindings) {
            if s.chi != a.chi || s.ty != a.ty {
                return Err(format!("{what}: argument {} has the wrong chirality or type", show(&a.var)));
            }
            Self::lookup(ctx, &a.var, a.chi.clone(), &a.ty).map_err(|e| format!("{what}: {e}"))?;
        }
        Ok(())
    }

    fn int_var(ctx: &Ctx, v: &cs::Identifier) -> Result<(), String> {
        Self::lookup(ctx, v, cs::Chirality::Prd, &cs::Ty::I64)
    }

    fn fs_term<C: cs::Chi>(&self, ctx: &Ctx, t: &cs::FsTerm<C>, expected: &cs::Ty) -> Result<(), String> {
        match t {
            cs::FsTerm::XVar(v) => {
                Self::expect(&format!("variable {}", show(&v.var)), &v.ty, expected)?;
                let chi = if v.prdcns.is_prd() { cs::Chirality::Prd } else { cs::Chirality::Cns };
                Self::lookup(ctx, &v.var, chi, &v.ty)
            }
            cs::FsTerm::Literal(_) => Self::expect("literal", &cs::Ty::I64, expected),
            cs::FsTerm::Op(o) => {
                Self::expect("arithmetic expression", &cs::Ty::I64, expected)?;
                Self::int_var(ctx, &o.fst)?;
                Self::int_var(ctx, &o.snd)
            }
            cs::FsTerm::Mu(m) => {
                Self::expect("mu abstraction", &m.ty, expected)?;
                let chi = if m.prdcns.is_prd() { cs::Chirality::Cns } else { cs::Chirality::Prd };
                let mut c2 = ctx.clone();
                c2.push(cs::ContextBinding { var: m.variable.clone(), chi, ty: m.ty.clone() });
                self.fs_stmt(&c2, &m.statement)
            }
            cs::FsTerm::Xtor(x) => {
                Self::expect(&format!("xtor {}", show(&x.name)), &x.ty, expected)?;
                let sig = self.xtor_sig(&x.ty, &x.name, x.prdcns.is_prd())?;
                self.fs_args(ctx, sig, &x.args, &format!("xtor {}", show(&x.name)))
            }
            cs::FsTerm::XCase(x) => {
                Self::expect("(co)case", &x.ty, expected)?;
                let data = !x.prdcns.is_prd();
                self.clauses_cover(&x.ty, x.clauses.iter().map(|c| &c.xtor).collect(), data)?;
                for c in &x.clauses {
                    self.clause_ctx(&x.ty, &c.xtor, &c.context, data)?;
                    let mut c2 = ctx.clone();
                    c2.extend(c.context.bindings.iter().cloned());
                    self.fs_stmt(&c2, &c.body)?;
                }
                Ok(())
            }
        }
    }

    fn fs_stmt(&self, ctx: &Ctx, s: &cs::FsStatement) -> Result<(), String> {
        match s {
            cs::FsStatement::Cut(c) => {
                self.ty_ok(&c.ty)?;
                self.fs_term(ctx, &*c.producer, &c.ty).map_err(|e| format!("cut at {}: producer: {e}", show_ty(&c.ty)))?;
                self.fs_term(ctx, &*c.consumer, &c.ty).map_err(|e| format!("cut at {}: consumer: {e}", show_ty(&c.ty)))
            }
            cs::FsStatement::IfC(i) => {
                Self::int_var(ctx, &i.fst)?;
                if let Some(s) = &i.snd {
                    Self::int_var(ctx, s)?;
                }
                self.fs_stmt(ctx, &i.thenc)?;
                self.fs_stmt(ctx, &i.elsec)
            }
            cs::FsStatement::PrintI64(p) => {
                Self::int_var(ctx, &p.arg)?;
                self.fs_stmt(ctx, &p.next)
            }
            cs::FsStatement::Call(c) => {
                let Some((_, sig)) = self.defs.iter().find(|(n, _)| **n == c.name) else {
                    return Err(format!("call of unknown definition {}", show(&c.name)));
                };
                self.fs_args(ctx, sig, &c.args, &format!("call {}", show(&c.name)))
            }
            cs::FsStatement::Exit(e) => Self::int_var(ctx, &e.var),
        }
    }
}

fn params_ok(name: &cs::Identifier, ctx: &cs::TypingContext) -> Result<(), String> {
    for (i, a) in ctx.bindings.iter().enumerate() {
        if ctx.bindings[i + 1..].iter().any(|b| b.var == a.var) {
            return Err(format!("definition {}: parameter {} occurs twice", show(name), show(&a.var)));
        }
    }
    Ok(())
}

pub fn check_prog(p: &cs::Prog) -> Result<(), String> {
    let tc = Tc { data: &p.data_types, codata: &p.codata_types, defs: p.defs.iter().map(|d| (&d.name, &d.context)).collect() };
    for (i, d) in p.defs.iter().enumerate() {
        if p.defs[i + 1..].iter().any(|e| e.name == d.name) {
            return Err(format!("definition {} is defined twice", show(&d.name)));
        }
        params_ok(&d.name, &d.context)?;
        tc.stmt(&d.context.bindings, &d.body).map_err(|e| format!("definition {}: {e}", show(&d.name)))?;
    }
    Ok(())
}

pub fn check_fs_prog(p: &cs::FsProg) -> Result<(), String> {
    let tc = Tc { data: &p.data_types, codata: &p.codata_types, defs: p.defs.iter().map(|d| (&d.name, &d.context)).collect() };
    for (i, d) in p.defs.iter().enumerate() {
        if p.defs[i + 1..].iter().any(|e| e.name == d.name) {
            return Err(format!("definition {} is defined twice", show(&d.name)));
        }
        params_ok(&d.name, &d.context)?;
        tc.fs_stmt(&d.context.bindings, &d.body).map_err(|e| format!("definition {}: {e}", show(&d.name)))?;
    }
    Ok(())
}

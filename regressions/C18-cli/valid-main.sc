def main(p0: i64): i64 { p0 }

def main(): i64 {
    if 1 >= -0 { 1 } else { 2 }
}

def main(x: i64): i64 {
    if x - 0 //c
 == 1 { 1 } else { 2 }
}

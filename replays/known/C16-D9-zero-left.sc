def main(): i64 {
    if 0 > 0 { 1 } else { 2 }
}

#!/usr/bin/env python3
"""Regenerates /verif/MANIFEST.json from the table below (keeps the file valid at all times)."""
import json, os, subprocess
ROOT = os.path.dirname(os.path.dirname(os.path.abspath(__file__)))

CHECKS = {
 "C01": ("generated well-typed Fun programs x argument tuples are compiled through the real pipeline, assembled with GNU as, linked with the repository's C driver and io.c and executed natively; stdout and exit status are compared with an independent CEK reference interpreter",
         "trusts the reference interpreter's reading of the source semantics (DESIGN 3.1) and GNU as as a stand-in for yasm after a syntax-only transliteration",
         "property-based differential testing: generated programs, native x86-64 execution vs reference interpreter"),
 "C02": ("generated programs of the effect-sequenced fragment with deliberate name reuse and compiler-style identifiers; the Core abstract machine on fun2core's output must agree with the reference interpreter; top-level labels must be pairwise distinct",
         "trusts the reference interpreter and the Core machine (DESIGN 3.1, 3.2)",
         "property-based differential testing: reference interpreter vs Core abstract machine"),
 "C03": ("two domains: Core programs from fun2core with effects in arbitrary argument positions, and well-typed Core programs generated directly as syntax trees (gen_core: all 26 producer/consumer cut shapes, nesting in any argument position, shadowing); the Core machine with dynamic focusing on the unfocused program must agree with the same machine on the focused program; binder-uniqueness invariant checked on every path",
         "trusts the Core machine's dynamic-focusing semantics (DESIGN 3.2), written from the calculus and not from focus.rs",
         "property-based differential testing (same machine before/after focusing) + structural invariant"),
 "C04": ("focused Core programs from the pipeline and from directly generated Core programs (gen_core), covering all cut shapes of core2axcut (histogram in evidence); Core machine vs named AxCut machine; free variables of every definition are parameters; binders unique along paths",
         "trusts the Core and AxCut machines (DESIGN 3.2, 3.3)",
         "property-based differential testing: Core machine vs AxCut machine"),
 "C05": ("non-linear AxCut programs from three sources (pipeline, direct generator gen_axcut, programs shrunk from directly generated Core programs); named machine vs positional/linear machine on the linearized program, plus an independent static checker of the ordered linear discipline over every path",
         "trusts the AxCut machines and the checker's reading of what the code generators assume (DESIGN C05)",
         "property-based differential testing + independent type checker for the linear discipline"),
 "C06": ("linearized AxCut programs from three generators (pipeline output of generated Fun programs; a stateful generator of linear AxCut programs with environments up to 24 variables kept in the spill area by a wide mode, objects with up to 8 fields, all operators/comparisons, 64-bit literals, arbitrary substitutions; directly generated Core programs taken through focusing, shrinking and linearization), plus an exhaustive operator/comparison placement matrix around the register/spill boundary and a native cross-check of the emulator on a sample; the positional AxCut machine must agree with the emulation of the printed x86-64 text on the sequence of print calls and the returned value",
         "trusts the x86-64 emulator's reading of the printed instruction subset (cross-checked against native execution by C01) and the AxCut machine",
         "property-based differential testing: AxCut machine vs emulator of the emitted assembly text (stateful generator of linear programs)"),
 "C07": ("as C06 for AArch64 (register-file boundary at 13 variables, MOVZ/MOVN/MOVK literal synthesis, SP alignment at every stack access)",
         "trusts the AArch64 emulator (no hardware or qemu in the sandbox; text additionally accepted by llvm-mc in C14) and the AxCut machine",
         "property-based differential testing: AxCut machine vs emulator of the emitted assembly text"),
 "C08": ("print-free linear programs with at most 14 live variables: the value of X10 at `cleanup:` of the emulated RISC-V pseudo-assembly must equal the AxCut machine's result, and the x86-64 and AArch64 emulations of the same program must agree",
         "trusts the emulator's reading of the backend's pseudo-syntax (64-bit LW/SW, blanks as separators)",
         "property-based differential testing: AxCut machine vs three emulators"),
 "C09": ("every execution of the C06-C08 domains on all three backends is audited at every statement-boundary marker: partition of all blocks below the frontier into reachable / reusable list / deferred list / waiting, exact reference counts, no write above the frontier, no access outside heap and own frame",
         "trusts the auditor's reading of the block layout (DESIGN 3.5) and the marker hook (comments only, feature verif_hooks)",
         "property-based testing with an invariant checked at every step of every emulated execution (heap auditor)"),
 "C10": ("oracle 1: on every audited execution the allocation frontier stays within 3 blocks of the peak number of reachable blocks (bound derived from acquire_block); oracle 2: scalable loop families run at n, 4n, 16n iterations reach the same highest written heap address",
         "trusts the auditor and the emulators; oracle 2 samples three sizes per family",
         "property-based testing with a resource invariant + metamorphic relation over scalable program families"),
 "C13": ("programs with print calls at every number of live variables 0..21 and every number of entry arguments, on the x86-64 and AArch64 emulators with an explicit calling-convention model: alignment at calls (and SP accesses on AArch64), callee-saved registers/stack pointer restored, result register, and poisoning of everything a callee may clobber",
         "trusts the emulators' model of the System V and AAPCS64 conventions (DESIGN 3.4)",
         "property-based testing against an executable calling-convention model (poison tracking)"),
 "C11": ("exhaustive enumeration of all maps new[m] -> old[n] (m, n <= 3 quick, <= 5 thorough), all kind assignments, all window offsets across each backend's register/spill boundary, with and without object padding, plus seeded random larger substitutions with aliased and multi-block objects; each configuration is executed on the emulator with the heap auditor and compared with the AxCut machine",
         "trusts emulators, heap auditor and AxCut machine; the substitution is observed through a generated prelude/epilogue, not a hand-prepared machine state",
         "exhaustive enumeration of a finite configuration space + property-based sampling beyond it, differential oracle with heap invariant"),
 "C12": ("generated accepted Fun programs and directly generated well-typed Core programs are pushed through every stage under catch_unwind; independent type/scope checkers for Core (unfocused, uniquified, focused), AxCut (non-linear) and the ordered linear discipline; all three code generators; plus an instance-name matrix (an instance whose printed name is exactly L characters, L = 20..240)",
         "trusts the independent checkers' reading of the typing rules listed in the property",
         "property-based testing with independent type checkers as oracles at every stage"),
 "C15": ("accept side: programs well-typed by construction must be accepted; reject side: 20 classes of single certainly-ill-typed edits (including a constructor / destructor of a different type with the same type arguments, a duplicated binder, the same covariable at two consumer types) applied at every applicable site must be rejected with an error (not accepted, no panic)",
         "trusts the generator's typing discipline (accept) and that each mutation class is ill-typed under any reading (reject)",
         "property-based testing: constructive generation + mutation-based negative testing"),
 "C14": ("assembly of all three backends for generated programs with adversarial identifiers, for the same programs extended by a definition whose name is chosen (two-pass) to print as a compiler-generated label, and for directly generated linear programs: text validator (labels unique/defined, runtime symbols, immediate/shift/offset ranges per instruction form), GNU as on the transliterated x86-64 file plus jump-table stride read from the object's symbol table, llvm-mc on the AArch64 text; plus a large-code matrix (every comparison form with a branch of 1200/4000 statements, large matches and cocases: branch displacements of 50-400 KiB)",
         "GNU as stands in for yasm, llvm-mc for the AArch64 assembler; RISC-V pseudo-assembly has no assembler, only the validator applies",
         "property-based testing with the real assemblers as oracles plus an independent well-formedness validator; adversarial two-pass name generation"),
 "C16": ("grammar-directed random programs (all term forms in all operand positions, comments/blank lines), generated typed programs and the repository's .sc files, each at 3 configurations from widths 1..200 and indents 0..8: parse -> print -> parse must give the same tree and printing again the same text; three recorded inputs of known finding D9 are replayed and reported as KNOWN-FINDING",
         "derived equality on the repository's AST ignores spans only; the known finding's shape (literal 0 token adjacent to a comparison operator) is excluded from generation by construction",
         "property-based round-trip testing (parse/print/parse)"),
 "C17": ("(a) each generated program is compiled in 8 (quick) / 32 (thorough) fresh processes with varied environment and working directory; all printed stages must be byte-identical; (b) the same program compiled alone, twice and after other programs in one process must agree up to renumbering of generated label counters; (c) the real scc binary: repeated runs, two working directories, and three histories in one directory (same path overwritten by another program, same-length edit, same file name in two directories with old time stamps) must write the files a fresh directory gets",
         "hash seeds cannot be chosen, processes sample them; the library stages are run, not the scc binary",
         "differential testing across processes and compilation histories (metamorphic relation: same input, different process state)"),
 "C18": ("token-level and byte-level mutations of valid programs, extreme literals, nesting up to a fixed depth, entry-point variations and random parseable-but-ill-typed programs: parser and checker must return Ok/Err, accepted programs with a valid entry must pass all later stages without a panic other than the documented capacity assertions; a declaration-stress domain (polymorphic declarations with non-regular and mutual recursion) is compiled in child processes so that an aborting or stack-exhausting compiler is observed; exotic tokens (compound tokens stretched by non-ASCII white space, very long names and numbers), declarations without xtors; thorough adds a libFuzzer target",
         "stack exhaustion by unboundedly deep nesting is outside the property ('within stack limits'); the RISC-V backend's documented print limitation is tolerated",
         "mutation-based fuzzing with a crash/panic oracle (catch_unwind) + coverage-guided libFuzzer target"),
 "C19": ("scalable families (sequenced/nested conditionals and matches, critical pairs over multi-constructor types, codata results with one and two destructors, branch points in let bindings and call arguments, every kind of statement directly after a branch point, branch points directly under destructors and in constructor/destructor arguments, several branch points lifted out of one statement, random mixtures): every stage's size at depth 2k is at most 16x its size at depth k for k = 4..8",
         "size measured on the printed form of each stage; witnesses polynomial growth on families, cannot prove it for all programs",
         "metamorphic testing over scalable generated families (growth-rate oracle)"),
 "C20": ("io.c linked with a small C main: all boundary values and random 64-bit values against Rust's formatting, also in runs of up to 1650 values without a newline; programs printing all parameters compiled through the real pipeline and C driver for 0..5 parameters with boundary/random arguments in canonical, zero-padded and plus-signed spelling, wrong argument counts, exit status, six heap sizes; AArch64 entry with 0..7 arguments on the emulator",
         "gcc/GNU as of the sandbox; AArch64 on the emulator only",
         "property-based testing against a reference formatter and the source semantics, native execution"),
}

DESIGN_REF = {k: f"DESIGN.md section 4/{k}" for k in ["C%02d" % i for i in range(1, 21)]}

def main():
    hooks_commits = []
    p = os.path.join(ROOT, "hooks_commits.txt")
    if os.path.exists(p):
        hooks_commits = [l.strip() for l in open(p) if l.strip()]
    checks = []
    for cid in sorted(CHECKS):
        text, note, tech = CHECKS[cid]
        checks.append({
            "property_id": cid,
            "quick_cmd": f"./check {cid} quick",
            "thorough_cmd": f"./check {cid} thorough",
            "evidence_file": f"evidence/{cid}.json",
            "replay_cmd_template": f"./check replay {cid} {{path}}",
            "engine": "harness",
            "level_claimed": {"category": "exploration", "text": text, "design_ref": DESIGN_REF[cid]},
            "level_note": note,
            "technique": tech,
        })
    na = [{"property_id": "C%02d" % i, "reason": "check still under construction; it will be claimed as soon as it exists (see DESIGN.md section 4 for the planned generated-input check)"}
          for i in range(1, 21) if "C%02d" % i not in CHECKS]
    m = {
        "version": 1,
        "setup_cmd": "./setup",
        "hooks": {
            "guard": "verif_hooks",
            "enable": "cargo feature `verif_hooks` of the crate axcut2backend; /verif/harness/Cargo.toml enables it on its path dependency, the repository's own workspace never does",
            "baseline_off_cmd": "cd /repo && cargo test --workspace --no-fail-fast --offline",
            "source_commits": hooks_commits,
            "add_only": True,
        },
        "engines": [{"name": "harness", "path": "harness", "serves_properties": sorted(CHECKS), "kind_free_text": "Rust crate `sccv` (path dependencies on /repo/lang/*): generators over proptest-seeded choice buffers, reference machines, emulators, shrinking, replay"}],
        "checks": checks,
        "not_applicable": na,
        "notes": "All checks are generated-input searches against explicit oracles (DESIGN.md). ./check rebuilds the harness against /repo's working tree before running.",
    }
    json.dump(m, open(os.path.join(ROOT, "MANIFEST.json"), "w"), indent=1)
    print("wrote MANIFEST.json with", len(checks), "checks,", len(na), "not_applicable")

main()

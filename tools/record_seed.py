#!/usr/bin/env python3
"""usage: record_seed.py <seed id> <caught-by, comma separated> [<not caught by, comma separated>] [note]
adds the verification record to seeded/<id>/meta.json"""
import json, sys, os
sid = sys.argv[1]
caught = [c for c in sys.argv[2].split(',') if c]
missed = [c for c in (sys.argv[3].split(',') if len(sys.argv) > 3 else []) if c]
note = sys.argv[4] if len(sys.argv) > 4 else ""
p = os.path.join(os.path.dirname(os.path.dirname(os.path.abspath(__file__))), 'seeded', sid, 'meta.json')
m = json.load(open(p))
m['breaks_property'] = m.get('property')
m['confirmed_by_me'] = {
    "in_scratch_worktree": "tools/verify_seed.sh: demonstration fails with patch.diff applied and passes with it reversed; `cargo test --workspace --no-fail-fast --offline` with the patch shows no failure other than the demonstration itself and the pre-existing testsuite loader error",
    "against_checks": "tools/try_seed.sh: git -C /repo apply patch.diff; ./check <ID> quick; git -C /repo checkout -- .",
}
m['caught_by_quick_checks'] = caught
m['not_caught_by'] = missed
if note:
    m['note'] = note
json.dump(m, open(p, 'w'), indent=1)
print("recorded", sid, caught, missed)

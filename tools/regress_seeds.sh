#!/bin/sh
# usage: tools/regress_seeds.sh [seed ids...]   (default: all of /verif/seeded)
# Re-runs, for every recorded seeded change, the quick checks that are recorded as reporting it and
# prints one line per (change, check): CAUGHT / MISSED.  /repo is restored after every change.
cd /verif || exit 2
if [ $# -eq 0 ]; then set -- $(ls seeded); fi
for s in "$@"; do
  d=/verif/seeded/$s
  [ -f $d/patch.diff ] || continue
  ids=$(jq -r '(.caught_by_quick_checks // []) | join(" ")' $d/meta.json)
  [ -n "$ids" ] || continue
  git -C /repo apply $d/patch.diff || { echo "$s: PATCH DOES NOT APPLY"; continue; }
  for id in $ids; do
    out=$(./check $id quick 2>&1)
    if echo "$out" | grep -q "^VIOLATION property=$id"; then echo "$s $id CAUGHT"; else echo "$s $id MISSED ($(echo "$out" | tail -1 | cut -c1-100))"; fi
  done
  git -C /repo checkout -- .
done

#!/bin/sh
# usage: tools/take_seed.sh <round dir, e.g. /tmp/seed2> <Cxx> <suffix, e.g. b> <check ids...>
# copies the deliverables of a seed agent into /verif/seeded/<Cxx>-<suffix>/ and runs the given quick checks against the change
R=$1; P=$2; S=$3; shift 3
mkdir -p /verif/seeded/$P-$S && cp -r $R/$P/_seed/* /verif/seeded/$P-$S/
/verif/tools/try_seed.sh /verif/seeded/$P-$S "$@" 2>&1 | grep -E "VIOLATION|violations=|error"

#!/bin/sh
# usage: tools/try_benign.sh <Bxx> <check ids...>
# applies a behaviour-preserving refactoring to /repo and runs quick checks: every one must stay silent (exit 0)
B=$1; shift
P=${BDIR:-/tmp/benign}/$B/_seed/patch.diff
[ -f "$P" ] || { echo "no patch for $B"; exit 2; }
mkdir -p /verif/benign/$B && cp ${BDIR:-/tmp/benign}/$B/_seed/patch.diff ${BDIR:-/tmp/benign}/$B/_seed/meta.json /verif/benign/$B/ 2>/dev/null
git -C /repo apply "$P" || { echo "$B: PATCH DOES NOT APPLY"; exit 2; }
cd /verif
for id in "$@"; do
  out=$(./check $id quick 2>&1); code=$?
  echo "$B $id exit=$code $(echo "$out" | grep -E "VIOLATION|INCONCLUSIVE|infrastructure" | head -2 | tr '\n' ' ') $(echo "$out" | tail -1 | cut -c1-110)"
done
git -C /repo checkout -- .
git -C /repo clean -fdq lang app 2>/dev/null

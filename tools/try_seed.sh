#!/bin/sh
# usage: tools/try_seed.sh <seed dir with patch.diff> <check ids...>
# applies the patch to /repo, runs the named checks (quick), and always restores /repo
D=$1; shift
cd /repo && git status --short | grep -q . && { echo "/repo not clean"; exit 2; }
git -C /repo apply "$D/patch.diff" || { echo "patch does not apply"; exit 2; }
for c in "$@"; do
  /verif/check "$c" quick 2>&1 | grep -E "VIOLATION|^property=|INCONCLUSIVE" | sed 's/ wall_s.*//'
done
git -C /repo checkout -- . 
git -C /repo status --short | head -3

#!/bin/sh
# usage: tools/verify_seed.sh <worktree> <demo cargo args...>
# confirms in the scratch worktree: demo fails with the patch, passes without; suite passes with the patch
W=$1; shift
cd "$W" || exit 2
echo "== demo WITH patch"; cargo test --offline "$@" 2>&1 | grep -E "^test result|FAILED|panicked" | head -5
git apply -R _seed/patch.diff || { echo "cannot reverse patch"; exit 2; }
echo "== demo WITHOUT patch"; cargo test --offline "$@" 2>&1 | grep -E "^test result|FAILED|panicked" | head -5
git apply _seed/patch.diff
echo "== suite WITH patch (excluding demo)"
cargo test --workspace --no-fail-fast --offline 2>&1 | grep -E "^test result: FAILED|^test .* FAILED|failed to load|Could not load" | sort | uniq -c | head
